"""Registry of proof obligations (harness entry + bound + back end) per property."""
from check import Ob

OBLIGATIONS = []
def add(*a, **k):
    OBLIGATIONS.append(Ob(*a, **k))

# ------------------------------------------------------------------------------- C14 scanner
SCAN_FUNCS = ["src/parse.c:scan", "src/scantab.h:mini_dfa", "src/scantab.h:big_dfa", "src/parse.c:bits_need/bits_dump macros"]
add("dfa_mini", "h_scan.c", "h_mini_dfa", {"C14": "quick", "C10": "quick"},
    cbmc=["--unwind", "50"], timeout=300, mem_gb=4,
    functions=["src/scantab.h:mini_dfa"], bounds="all 48 states x 2 bits (complete)",
    assumptions=["pattern constant 0x314159265359 restated in the harness"])
add("dfa_big", "h_scan.c", "h_big_dfa", {"C14": "quick", "C10": "quick"},
    cbmc=["--unwind", "9"], timeout=300, mem_gb=4,
    functions=["src/scantab.h:big_dfa", "src/scantab.h:mini_dfa"], bounds="all 49 states x 256 bytes (complete)")

# ------------------------------------------------------------------------------- CRC lemma
for nm, ent in (("crc_table", "h_crc_table"), ("crc_step", "h_crc_step")):
    add(nm, "h_crc.c", ent, {"C04": "quick", "C01": "quick", "C02": "quick", "C15": "quick", "C05": "quick"},
        cbmc=["--unwind", "10"], extra_src=["crctab.c"], timeout=300, mem_gb=4, functions=["src/crctab.c:crc_table"],
        bounds="all 256 table entries / all (crc, byte) pairs (complete)")

# ------------------------------------------------------------------------------- C04 collect()
COLLECT_FUNCS = ["src/encode.c:collect", "src/encode.c:encoder_init", "src/encode.c:encoder_alloc_size"]
COLLECT_ASM = ["pre-state restricted to the representation invariant INV of h_collect.c (0<=nblock<=M, 0<=rle_state<=258, "
               "rle_state>=4 => 4<=nblock<=M-1, 1<=rle_state<=3 => nblock>=rle_state); INV is proved re-established by every call",
               "malloc does not fail"]
SHRINK_NOTE = ("scratch arrays of struct encoder_state that collect() never touches (u.bucket, u.s.selector*, u.s.length/code/frequency) "
               "are shrunk textually in a scratch copy of encode.c so that the state object fits the SAT back end; collect()'s own text is unchanged")
RS_CLASSES = (("rs0", 0, 0), ("rs1", 1, 1), ("rs2", 2, 2), ("rs3", 3, 3), ("rs4p", 4, 258))
def collect_obs(L, mmax, tier, to, split):
    classes = RS_CLASSES if split else (("all", 0, 258),)
    for cname, lo, hi in classes:
        add("collect_len%d_m%d_%s" % (L, mmax, cname), "h_collect.c", "h_collect_step",
            {"C04": tier, "C01": tier, "C02": tier},
            defines=["-DLEN=%d" % L, "-DMMAX=%d" % mmax, "-DRS_LO=%d" % lo, "-DRS_HI=%d" % hi],
            cbmc=["--unwind", str(mmax + 4), "--unwindset", "collect.0:260"], backend="kissat", timeout=to, mem_gb=6,
            shrink="encoder_scratch", extra_src=["crctab.c"], functions=COLLECT_FUNCS, witness_mode="any" if split else "all", assumptions=COLLECT_ASM + [SHRINK_NOTE],
            bounds="one collect() call, buffer length %d (bytes symbolic), capacity M symbolic 1..%d, arbitrary INV pre-state with pending run length in %d..%d"
                   % (L, mmax, lo, hi),
            outside=["in-line fast path of collect() for more than %d consecutive bytes inside one call (longer buffers follow by composition of the byte-wise reference only if "
                     "the in-line path agrees with the resumed path, which is checked up to this length)" % L,
                     "block capacities above %d bytes are covered through the symbolic-capacity argument only (production: 100000..900000)" % mmax])
def collect_inline_obs(L, mmax, tier, to, shapes=None):
    for shape in (shapes if shapes is not None else range(1 << (L - 1))):
        add("collect_inline_L%d_s%02x" % (L, shape), "h_collect.c", "h_collect_inline", {"C04": tier, "C01": tier, "C02": tier},
            defines=["-DLEN=%d" % L, "-DMMAX=%d" % mmax, "-DINLINE_SHAPES", "-DSHAPE=%d" % shape],
            cbmc=["--unwind", "40", "--unwindset", "collect.0:260"], backend="kissat", timeout=to, mem_gb=4,
            shrink="encoder_scratch", extra_src=["crctab.c"], functions=COLLECT_FUNCS, assumptions=COLLECT_ASM + [SHRINK_NOTE],
            witness_mode="any",
            bounds="in-line path of collect(): one call, %d-byte buffer with byte-equality pattern %s (bit k set = byte k+1 equals byte k; "
                   "the registered patterns are listed in obligations.py), concrete byte values, no pending run, concrete CRC start; capacity M symbolic 1..%d, "
                   "fill level and block contents symbolic" % (L, format(shape, "0%db" % (L - 1)), mmax),
            outside=["runs longer than the buffer (the 259 limit inside one call is covered by collect_longrun_*, on the resumed path by collect_len*)"])
collect_inline_obs(5, 8, "quick", 900)
collect_inline_obs(6, 9, "quick", 900, shapes=[0x0f, 0x1f])            # 5 and 6 equal bytes (then a different one): run loop taken more than once
collect_inline_obs(7, 10, "quick", 900, shapes=[0x1f, 0x3f, 0x2f])
collect_inline_obs(7, 10, "thorough", 600, shapes=[x for x in range(64) if x not in (0x1f, 0x3f, 0x2f)])
for _rl, _tier in ((259, "quick"), (260, "quick"), (258, "thorough"), (263, "thorough")):
    add("collect_longrun_%d" % _rl, "h_collect.c", "h_collect_longrun", {"C04": _tier, "C01": _tier, "C02": _tier},
        defines=["-DLEN=1", "-DMMAX=14", "-DRUNLEN=%d" % _rl],
        cbmc=["--unwind", "6", "--unwindset", "h_collect_longrun.0:%d,h_collect_longrun.1:%d,collect.4:258,make_encoder.0:16,make_ref.0:18,compare.0:16" % (_rl + 2, _rl + 4)],
        backend="kissat", timeout=900, mem_gb=10, shrink="encoder_scratch", extra_src=["crctab.c"], functions=COLLECT_FUNCS, assumptions=COLLECT_ASM + [SHRINK_NOTE],
        witnesses=["long_run_in_one_call"],
        bounds="one collect() call on %d equal bytes followed by a different byte (the 259 run-length limit is crossed inside the in-line run loop), fresh state with ample room, "
               "fill level and capacity (<= 14) symbolic, bytes and CRC start value concrete" % _rl,
        outside=["capacity effects during a long run (the capacity branches are the subject of the other collect obligations)"])
collect_obs(0, 9, "quick", 900, False)
collect_obs(1, 9, "quick", 900, False)
collect_obs(2, 6, "quick", 1200, True)
collect_obs(2, 9, "thorough", 1200, True)
# collect_obs(3, 6, ...): a 3-byte buffer from an arbitrary pre-state does not finish within 50 min (measured twice); not registered

for nw, tier, to in ((2, "quick", 900), (4, "quick", 1500), (3, "thorough", 3000), (5, "thorough", 3000)):
    add("scan_nw%d" % nw, "h_scan.c", "h_scan", {"C14": tier}, defines=["-DNW=%d" % nw],
        static_unwind=["scan.1:2"],
        cbmc=["--unwind", str(32 * nw + 40), "--unwindset", "scan.0:34,scan.1:34,scan.2:%d" % (nw + 2)], backend="kissat",
        timeout=to, mem_gb=8, functions=SCAN_FUNCS,
        witnesses=["scan_found", "scan_more", "scan_found_straddling_live_and_words"] + (["scan_found_after_skip"] if nw >= 4 else []),
        bounds="bit stream of <=32 live bits + %d symbolic 32-bit words, any skip; the `goto again` loop of scan() is unwound statically (goto-instrument) to two copies "
               "and the assertion that a third traversal is impossible is PROVED in the same query (it follows from big_dfa = 8 x mini_dfa)" % nw,
        assumptions=["struct bitstream invariant: live<=32 on entry and bits below the live ones are zero",
                     "scan() may start matching anywhere up to the skip point rounded up to a word boundary (what do_scan relies on)"],
        outside=["input blocks longer than %d words (the scanner state is a 48-state automaton, longer blocks only repeat the word loop)" % nw])

# ------------------------------------------------------------------------------- C05/C06 delta-coded code lengths
DELTA_FUNCS = ["src/decode.c:retrieve (states S_SELECTOR_MTF, S_DELTA_TAG)", "src/decode.c:L[]/R[] delta tables", "src/decode.c:NEED/PEEK/DUMP macros"]
for nm, ent, what in (("delta_window", "h_delta_window", "one 6-bit delta window from an arbitrary mid-table state (alphabet 3..258, any symbol index, running length 1..20, any 32-bit input word)"),
                      ("delta_start", "h_delta_start", "5-bit start value 0..31 plus the first window of a table (any 32-bit input word)")):
    add(nm, "h_delta.c", ent, {"C05": "quick", "C06": "quick"}, cbmc=["--unwind", "8", "--unwindset", "retrieve.3:3"], backend="sat", timeout=300, mem_gb=8,
        extra_src=["crctab.c"], functions=DELTA_FUNCS, bounds=what + "; inductive step: sequences of any length follow",
        assumptions=["execution cut at hook VERIF_POINT(DELTA_DONE) (table complete; make_tree() is checked by the tree obligations)",
                     "strict reference = bzip2 1.0.x rule: running length within 1..20 before every bit read"])

# ------------------------------------------------------------------------------- C05/C06/C15 stream/block header parser
PARSE_FUNCS = ["src/parse.c:parse", "src/parse.c:parser_init", "src/parse.c:bits_need/bits_peek/bits_dump/bits_align macros"]
PARSE_STATES = ["stream1", "stream2", "blk1", "blk2", "blk3", "bcrc1", "bcrc2", "eos2", "eos3", "ecrc1", "ecrc2"]
for nw, tier, to in ((3, "quick", 400), (5, "thorough", 1800)):
  for st, stname in enumerate(PARSE_STATES):
    add("parse_nw%d_%s" % (nw, stname), "h_parse.c", "h_parse_step", {"C05": tier, "C06": tier, "C15": tier, "C10": tier, "C07": tier},
        defines=["-DNW=%d" % nw, "-DST_LO=%d" % st], cbmc=["--unwind", "18"], backend="kissat", timeout=to, mem_gb=6, functions=PARSE_FUNCS,
        witness_mode="any",
        bounds="one parse() call entered at grammar position %s (all 11 positions are registered) with arbitrary level/CRC registers, bit stream of <=63 live bits + %d symbolic words, eof symbolic; "
               "inductive step: whole multi-block / multi-stream files follow" % (stname, nw),
        assumptions=["struct bitstream invariant: live<=63, bits below the live ones are zero; words are 32-bit aligned in the file (work() reads the 4-byte header first)",
                     "while the second half of a CRC field is awaited, stored_crc holds the 16-bit first half (set by the preceding step)"],
        outside=["more than %d input words per call (the parser is a finite automaton over 16-bit units; longer inputs repeat the loop)" % nw])

# ------------------------------------------------------------------------------- decoding tables + symbol lookup
for L, W, NA, tier, to in ((5, 2, 5, "quick", 300), (6, 3, 6, "quick", 400), (7, 3, 7, "thorough", 1800)):
    add("tree_symbol_L%d_W%d_A%d" % (L, W, NA), "h_tree.c", "h_tree_symbol", {"C05": tier, "C06": tier},
        defines=["-DVERIF_MAX_CODE_LENGTH=%d" % L, "-DVERIF_HUFF_START_WIDTH=%d" % W, "-DNA=%d" % NA],
        cbmc=["--unwind", str(max(10, (1 << W) + 2))], backend="kissat", timeout=to, mem_gb=6, extra_src=["crctab.c"],
        functions=["src/decode.c:make_tree", "src/decode.c:retrieve (state S_PREFIX, slow-path symbol lookup)"],
        bounds="SCALED build: MAX_CODE_LENGTH=%d (production 20), HUFF_START_WIDTH=%d (production 10), alphabet of %d symbols with arbitrary code lengths 1..%d, any 32 input bits" % (L, W, NA, L),
        assumptions=["scaled format constants through the guarded hooks in common.h/decode.c; the algorithm text is the production text",
                     "execution observed and cut at hook VERIF_POINT(SYMBOL_SLOW) after the first decoded symbol"],
        outside=["production constants (20-bit codes, 1024-entry start table, 258 symbols) did not fit the budget", "the fast-path copy of the lookup (taken when >= 32 input words are available)"])

# ------------------------------------------------------------------------------- emit(): resumable run-length decoder
EMIT_FUNCS = ["src/decode.c:emit"]
for nm, nb, vmax, crc, tier, to in (("emit_split_n5", 5, 2, False, "quick", 600), ("emit_crc_n4", 4, 1, True, "quick", 600),
                                    ("emit_split_n6", 6, 3, False, "thorough", 3000), ("emit_crc_n5", 5, 2, True, "thorough", 3000)):
    add(nm, "h_emit.c", "h_emit_split", {"C09": tier, "C05": tier, "C06": tier, "C01": tier, "C15": tier if crc else "thorough"},
        defines=["-DNB=%d" % nb, "-DVMAX=%d" % vmax] + ([] if crc else ["-DNO_CRC"]), extra_src=["crctab.c"],
        cbmc=["--unwind", str(nb + (nb // 5 + 1) * vmax + 5), "--unwindset", "emit.0:%d,emit.1:%d,emit.2:%d,emit.3:%d,emit.4:%d" % (vmax + 2, vmax + 2, vmax + 2, vmax + 2, nb + 2)],
        backend="kissat", timeout=to, mem_gb=8, functions=EMIT_FUNCS, witness_mode="any" if nb < 5 else "all",
        bounds="decoded block of <= %d bytes (byte values 0..%d, arbitrary in-range IBWT links), emitted through up to three output buffers of arbitrary sizes; %s"
               % (nb, vmax, "CRC compared" if crc else "CRC not compared in this query (see emit_crc_*)"),
        assumptions=["the IBWT list is given directly (arbitrary links < block size); decode() that builds it is checked separately"],
        outside=["blocks above %d bytes / count bytes above %d; more than two suspensions per block" % (nb, vmax)])

# ------------------------------------------------------------------------------- process.c I/O layer
OSMODEL_IO = ["operating system replaced by a symbolic stub: each read()/write() returns any count its contract allows (>=1 unless EOF, <= request) or -1 with an arbitrary errno",
              "pthread primitives are no-ops in these single-threaded queries; a condition wait ends the explored path (blocked)"]
def proc_ob(name, entry, props, bounds, funcs, unwind=16, to=300, **kw):
    add(name, "h_process.c", entry, props, cbmc=["--unwind", str(unwind)], backend="kissat", timeout=to, mem_gb=6,
        functions=funcs, bounds=bounds, assumptions=OSMODEL_IO, **kw)
proc_ob("xread_fill", "h_xread", {"C03": "quick", "C21": "quick", "C19": "quick"},
        "chunk size 1..4, file of <=6 bytes from any offset, up to 6 read() calls each with an arbitrary result", ["src/process.c:xread"],
        defines=["-DSRC_MAX=6", "-DNCALL=6"], unwind=9, witnesses=["read_error_reported", "chunk_filled_from_fragments", "short_chunk_at_eof"])
proc_ob("xwrite_short", "h_xwrite", {"C03": "quick", "C21": "quick", "C09": "quick"},
        "buffer of 0..4 bytes, up to 6 write() calls each with an arbitrary result; output fd real or -1 (-t)", ["src/process.c:xwrite"],
        defines=["-DSRC_MAX=6", "-DNCALL=6"], unwind=9, witnesses=["write_error_reported", "discarding", "buffer_written_in_fragments"])
proc_ob("sniff", "h_sniff", {"C19": "quick", "C07": "quick", "C21": "quick"},
        "work() in decompress mode: file of 0..6 arbitrary bytes, arbitrary read() fragmentation (<=6 calls), -f on/off, output = stdout / file / discard",
        ["src/process.c:work", "src/process.c:xread", "src/process.c:xwrite", "src/process.c:copy", "src/process.c:schedule"],
        defines=["-DSRC_MAX=6", "-DNCALL=6"], unwind=9,
        witnesses=["sniff_read_error", "sniff_write_error", "rejected_not_bzip2", "bzip2_header", "copy_through", "copy_through_short_input"])
proc_ob("memconstraints", "h_memconstraints", {"C13": "quick", "C03": "quick", "C04": "quick", "C11": "quick"},
        "all worker counts 1..65535, levels 1..9, compress/decompress, small flag (complete)", ["src/process.c:set_memory_constraints"],
        witnesses=["compress_config", "decompress_config"])
for ch in (1, 2):
  proc_ob("copy_seq_chunk%d" % ch, "h_copy_seq", {"C19": "quick"},
        "copy pipeline with buffer size %d and a file of <=3 bytes (<=2 buffers in flight), arbitrary read()/write() fragmentation; reader run to completion, then writer" % ch,
        ["src/process.c:source_thread_proc", "src/process.c:sink_thread_proc", "src/process.c:copy_on_input_avail", "src/process.c:copy_on_write_complete",
         "src/process.c:copy_terminate", "src/process.c:sink_write_buffer", "src/process.c:source_release_buffer", "src/process.c:sched_unlock"],
        defines=["-DSRC_MAX=3", "-DNCALL=5", "-DCHUNK=%d" % ch], to=600, unwind=7,
        witnesses=["empty_input", "input_exactly_one_chunk"] + (["two_chunks"] if ch == 2 else []),
        outside=["real 64 KiB buffers and real thread interleavings of reader and writer (only the sequential order reader-then-writer is explored)",
                 "inputs of more than two buffers (the reader then blocks on a slot; path ends)"])
proc_ob("copy_terminate", "h_copy_terminate", {"C19": "quick"}, "all values of eof/out_slots/total_out_slots (complete)", ["src/process.c:copy_terminate"], witnesses=["completion_signalled"])

# ------------------------------------------------------------------------------- main.c + signals.c under the symbolic OS
MAIN_FUNCS = ["src/main.c:main", "src/main.c:opts_setup", "src/main.c:input_init", "src/main.c:output_init", "src/main.c:output_regf_uninit",
              "src/main.c:input_oprnd_rm", "src/main.c:input_uninit", "src/main.c:suffix_xform", "src/main.c:cleanup", "src/main.c:log_generic + DEF() logging family",
              "src/signals.c:setup_signals", "src/signals.c:cli", "src/signals.c:sti", "src/signals.c:halt", "src/signals.c:terminate", "src/signals.c:bailout", "src/signals.c:xraise"]
MAIN_ASM = ["symbolic OS model of h_main.c: per-operand input/output nodes; every system-call execution (lstat/open/fstat/close/unlink/fchown/fchmod/futimens and each stderr write) "
            "may fail with an arbitrary errno; umask arbitrary; signal masks/actions/pending sets modelled, delivery at kill()/unblock/sigsuspend()",
            "work() is a contract stub: marks the output partial, may fail in the main thread (read/data/write error through the real failf/failfx), then waits in the REAL halt(); "
            "SIGINT, SIGTERM and sub-thread failures (plain, EPIPE, EFBIG) arrive there; otherwise SIGUSR2 (success) marks the output complete",
            "a sub-thread's bailout() is modelled by its effect (pending SIGPIPE/SIGXFSZ promoted, SIGUSR1 raised)",
            "unlink() of an output file created by this run never fails (every other call may)",
            "a failed close() of the output is assumed to possibly lose buffered data (content no longer complete)"]
def main_ob(name, entry, props, args, oper0="a", noper=1, pname="lbzip2", extra=(), to=600, oper1="b", **kw):
    add(name, "h_main.c", entry, props,
        defines=["-include", "/verif/harness/osmodel_sig.h", '-DARGS="%s"' % args, '-DOPER0="%s"' % oper0, '-DOPER1="%s"' % oper1,
                 "-DNOPER=%d" % noper, '-DPNAME="%s"' % pname] + list(extra),
        extra_src=["signals.c"], cbmc=["--unwind", "42"], object_bits=12, backend="sat", timeout=to, mem_gb=8,
        functions=MAIN_FUNCS, assumptions=MAIN_ASM,
        bounds="argv = %s %s %s%s; initial file-system state, umask, inherited signal mask, the outcome of each of up to 40 system-call executions and up to 2 asynchronous events per operand are symbolic"
               % (pname, args, oper0, (" " + oper1) if noper > 1 else ""), **kw)
F = {"C16": "quick", "C17": "quick", "C07": "quick"}
WF = ["exit_success", "exit_failure", "exit_warning", "death_by_signal", "operand_converted", "operand_not_admitted"]
WFF = ["exit_success", "exit_failure", "exit_warning", "death_by_signal", "operand_converted"]
WN = ["exit_success", "exit_failure", "exit_warning", "death_by_signal"]
def eo(n): return ['-DEXPECT_OUT="%s"' % n]
main_ob("main_compress", "h_main_files", F, "-z", extra=eo("a.bz2"), witnesses=WF)
main_ob("main_compress_keep", "h_main_files", F, "-zk", oper0="dir/x.tar", extra=eo("dir/x.tar.bz2"), witnesses=WF)
main_ob("main_compress_force", "h_main_files", F, "-zf", oper0="a.bz", extra=eo("a.bz.bz2"), witnesses=WFF)
main_ob("main_decompress", "h_main_files", F, "-d", oper0="a.bz2", extra=eo("a"), witnesses=WF)
main_ob("main_decompress_keep", "h_main_files", F, "-dk", oper0="a.tbz", extra=eo("a.tar"), witnesses=WF)
main_ob("main_decompress_force", "h_main_files", F, "-df", oper0="a.x", extra=eo("a.x.out"), witnesses=WFF)
main_ob("main_decompress_tbz2", "h_main_files", {"C17": "quick"}, "-d", oper0="b.tbz2", extra=eo("b.tar"), witnesses=WF)
main_ob("main_decompress_tz2", "h_main_files", {"C17": "quick"}, "-d", oper0=".tz2", extra=eo(".tar"), witnesses=WF)
main_ob("main_decompress_bz2only", "h_main_files", {"C17": "quick"}, "-dk", oper0=".bz2", extra=eo(""), witnesses=["exit_failure", "exit_warning"])
for sfx in ("bz2", "tbz", "tbz2", "tz2"):
    main_ob("main_compress_skip_" + sfx, "h_main_files", {"C17": "quick"}, "-zf", oper0="q." + sfx, extra=["-DEXPECT_SKIP=1"], witnesses=["compressed_suffix_skipped", "exit_failure"])
main_ob("main_test", "h_main_files", {"C17": "quick", "C07": "quick"}, "-t", oper0="a.bz2", witnesses=WN)
main_ob("main_stdout", "h_main_files", {"C17": "quick", "C07": "quick"}, "-dc", oper0="a.bz2", witnesses=WN)

# C18: two FILE operands in one invocation
W2 = ["exit_success", "exit_failure", "exit_warning", "death_by_signal", "operand_converted", "both_operands_processed", "fatal_error_on_second_operand"]
G = {"C18": "quick"}
main_ob("main2_compress", "h_main_files", G, "-z", noper=2, extra=['-DEXPECT_OUT="a.bz2"', '-DEXPECT_OUT1="b.bz2"'], witnesses=W2 + ["operand_not_admitted"])
main_ob("main2_decompress_keep", "h_main_files", G, "-dk", oper0="a.bz2", oper1="b.tz2", noper=2, extra=['-DEXPECT_OUT="a"', '-DEXPECT_OUT1="b.tar"'], witnesses=W2)
main_ob("main2_compress_skip_first", "h_main_files", G, "-z", oper0="a.tbz", oper1="b", noper=2, extra=["-DEXPECT_SKIP=1", '-DEXPECT_OUT="?"', '-DEXPECT_OUT1="b.bz2"'],
        witnesses=["exit_failure", "exit_warning", "death_by_signal", "operand_converted", "compressed_suffix_skipped"])
main_ob("main2_compress_skip_second", "h_main_files", G, "-zf", oper0="a", oper1="b.bz2", noper=2, extra=["-DEXPECT_SKIP=2", '-DEXPECT_OUT="a.bz2"'],
        witnesses=["exit_failure", "exit_warning", "death_by_signal", "operand_converted", "compressed_suffix_skipped"])
main_ob("main2_verbose_skip_first", "h_main_files", G, "-zv", oper0="a.tbz", oper1="b", noper=2, extra=["-DEXPECT_SKIP=1", '-DEXPECT_OUT="?"', '-DEXPECT_OUT1="b.bz2"'],
        witnesses=["exit_failure", "exit_warning", "death_by_signal", "operand_converted", "compressed_suffix_skipped"])
main_ob("main2_stdout", "h_main_files", G, "-dc", oper0="a.bz2", oper1="b.bz2", noper=2, witnesses=WN + ["both_operands_processed"])
# C21: filter mode
FW = ["exit_success", "exit_failure", "death_by_signal"]
for nm, args in (("filter_compress", "-z"), ("filter_decompress", "-d"), ("filter_copy", "-dcf")):
    main_ob("main_" + nm, "h_main_filter", {"C21": "quick", "C07": "quick"}, args, extra=["-DFILTER_CHECKS"], witnesses=FW)

# C22: option sources and parsing
def opts_ob(name, ntok, use_env, pn_mask, tier, to):
    names = [n for i, n in enumerate(["lbzip2", "bzip2", "bunzip2", "lbunzip2", "bzcat", "lbzcat", "foo"]) if (pn_mask >> i) & 1]
    add(name, "h_main.c", "h_opts", {"C22": tier},
        defines=["-include", "/verif/harness/osmodel_sig.h", "-DOPTS_ONLY", "-DNTOK=%d" % ntok, "-DUSE_ENV=%d" % use_env, "-DPN_MASK=%d" % pn_mask],
        cbmc=["--unwind", "42"], object_bits=14 if (ntok and use_env) or ntok > 1 else 12, backend="kissat", timeout=to, mem_gb=12 if ntok > 1 or (ntok and use_env) else 8,
        functions=["src/main.c:opts_setup", "src/main.c:opts_outmode", "src/main.c:opts_decompress", "src/main.c:main (invocation name)"],
        witnesses=["decompressing_name"] + (["environment_value_with_double_separator"] if use_env else []) + (["options_refused"] if (ntok + use_env) >= 2 else []),
        bounds="invocation name in {%s}; %d command-line token(s) from a 32-entry vocabulary (short, clustered, long, documented no-ops, --small); %s. "
               "The case (name, environment value, tokens) is selected by symbolic inputs; each case runs opts_setup() on concrete strings"
               % (", ".join(names), ntok, "at most one of LBZIP2/BZIP2/BZIP set to one of 12 values (one or two tokens, single/double/leading/trailing separators, tab)" if use_env else "environment empty"),
        assumptions=["strtok() modelled with C-standard semantics; getenv/isatty/sysconf stubbed (no terminal, 4 processors)",
                     "signals.c not linked in this query: a refused option ends the path in bailout()",
                     "reference = executable model of the documented rules (ref_apply in h_main.c)"],
        outside=["FILE operands mixed with options, -n/-m arguments, --help/--version", "more than %d command-line tokens; two environment variables set at once" % ntok])
opts_ob("opts_names_x_token", 1, 0, 0x7f, "quick", 600)
opts_ob("opts_env_x_names", 0, 1, 0x15, "quick", 600)
opts_ob("opts_env_x_token", 1, 1, 0x04, "thorough", 3000)
opts_ob("opts_names_x_2tokens", 2, 0, 0x05, "thorough", 3000)   # lbzip2 and bunzip2 (all seven names with two tokens did not finish in 50 min)

# ------------------------------------------------------------------------------- compress.c scheduler
COMP_ASM = ["codec entry points (collect/encode/transmit) replaced by contract stubs; collect consumes an arbitrary non-empty prefix",
            "pthread primitives are no-ops; the scheduler lock is owned by the harness",
            "RG steps: the state at every lock acquisition is arbitrary subject to the monitor invariant INV of h_compress.c (rely); C12 (all shared state accessed under the lock) is assumed"]
def comp_ob(name, entry, props, bounds, funcs, wit, unwind=12, to=600, real_heap=False, **kw):
    add(name, "h_compress.c", entry, props, cbmc=["--unwind", str(unwind)], backend="kissat", timeout=to, mem_gb=8, object_bits=10,
        extra_src=[("process.c", ["-include", "/verif/harness/proc_rename.h"])] if real_heap else [], defines=(["-DREAL_HEAP"] if real_heap else []) + list(kw.pop("defines", [])),
        functions=funcs + (["src/process.c:up_heap", "src/process.c:down_heap"] if real_heap else []) + ["src/process.h:pqueue macros"], bounds=bounds,
        assumptions=COMP_ASM + ([] if real_heap else ["up_heap()/down_heap() replaced by a bag with correct head extraction in this query (order inside the queue is irrelevant to the invariant); the real helpers are checked by heap_ops"]),
        witnesses=wit, **kw)
for _nb, _tier in ((2, "quick"), (3, "thorough")):
  comp_ob("stream_frame" if _nb == 2 else "stream_frame_3blk", "h_stream_frame", {"C02": _tier, "C03": _tier, "C18": _tier, "C11": _tier, "C01": _tier},
        "two streams in one process, levels 1..9 each, first stream 1..%d blocks with arbitrary CRCs arriving at the reorder queue in any rotation, second stream empty or one block" % _nb,
        ["src/compress.c:init", "src/compress.c:uninit", "src/compress.c:write_header", "src/compress.c:write_trailer", "src/compress.c:can_reorder", "src/compress.c:do_reorder", "src/encode.h:combine_crc"],
        ["blocks_arrive_out_of_order", "second_stream_written", "empty_second_stream"], real_heap=True, defines=["-DNBLK=%d" % _nb], to=1800)
RGP = {"C11": "quick", "C13": "quick", "C03": "quick", "C04": "quick"}
RGB = "worker count symbolic 1..3 (slot totals 2w / 2w+2), all counters, queue sizes and queue contents arbitrary subject to INV; one task execution with re-havoc at every lock release"
comp_ob("rg_transmit", "h_rg_transmit", RGP, RGB, ["src/compress.c:can_transmit", "src/compress.c:do_transmit"], ["transmit_enabled", "transmit_on_reserved_slot"])
comp_ob("rg_reorder", "h_rg_reorder", RGP, RGB, ["src/compress.c:can_reorder", "src/compress.c:do_reorder"], ["reorder_enabled"])
comp_ob("rg_collect", "h_rg_collect", RGP, RGB, ["src/compress.c:can_collect", "src/compress.c:do_collect"], ["collect_enabled", "input_block_split"])
comp_ob("rg_collect_seq", "h_rg_collect_seq", {"C11": "quick", "C13": "quick", "C04": "quick", "C03": "quick"}, RGB + "; sequential mode (-u): with or without a block left unfinished by the previous piece, block becoming full or not",
        ["src/compress.c:can_collect_seq", "src/compress.c:do_collect_seq"], ["collect_seq_enabled", "block_continued_from_previous_piece", "block_stays_unfinished"])
comp_ob("rg_collect_seq_flush", "h_rg_collect_seq_flush", {"C11": "quick", "C04": "quick", "C01": "quick"}, RGB + "; sequential mode at end of input with a block left unfinished",
        ["src/compress.c:can_collect_seq", "src/compress.c:do_collect_seq"], ["last_block_flushed"])
comp_ob("rg_write_complete", "h_rg_write_complete", RGP, RGB, ["src/compress.c:on_write_complete"], ["write_completes"])
comp_ob("rg_input_avail", "h_rg_input_avail", RGP, RGB, ["src/compress.c:on_input_avail"], ["input_block_arrives"])
comp_ob("terminate_guard", "h_terminate_guard", {"C11": "quick"}, RGB, ["src/compress.c:can_terminate"], ["terminates"])
comp_ob("heap_ops", "h_heap_ops", {"C11": "quick", "C03": "quick", "C10": "quick"}, "binary heap of <=5 elements with arbitrary positions satisfying the heap order; one insertion or one removal",
        [], ["heap_insert", "heap_remove"], real_heap=True)

# ------------------------------------------------------------------------------- expand.c block-level checks
EXP_ASM = ["codec entry points (parse/scan/retrieve/decode/emit) replaced by contract stubs", "scheduler lock and I/O threads stubbed (single-threaded query); heap helpers replaced by a bag with correct head extraction (real helpers: heap_ops)"]
add("reorder_checks", "h_expand.c", "h_reorder_checks", {"C05": "quick", "C15": "quick", "C07": "quick", "C06": "quick", "C10": "quick", "C13": "quick", "C09": "quick"}, cbmc=["--unwind", "20"], backend="kissat", timeout=300, mem_gb=6,
    functions=["src/expand.c:do_reorder", "src/expand.c:can_reorder", "src/expand.c:init", "src/process.h:deque/pqueue macros"],
    witnesses=["fatal_error_reported", "bogus_candidate_dropped", "partial_block_written", "block_accepted"],
    bounds="one finished output block against one parsed block header; positions, both CRCs, block size, status (every enum value) and level symbolic (complete for this step)",
    assumptions=EXP_ASM)
add("parse_finish", "h_expand.c", "h_parse_finish", {"C05": "quick", "C07": "quick", "C09": "quick"}, cbmc=["--unwind", "20"], backend="kissat", timeout=300, mem_gb=6,
    functions=["src/expand.c:do_parse (FINISH branch)", "src/expand.c:attach", "src/expand.c:detach", "src/expand.c:advance", "src/expand.c:bits_init", "src/expand.c:on_input_avail", "src/expand.c:can_parse", "src/expand.c:init"],
    witnesses=["fatal_error_reported", "end_inside_a_padded_word_accepted", "garbage_word_given_back"],
    bounds="last input block of 1..2 words with 0..3 padding bytes; parser start word, stop position (0..15 bits left) and garbage count (0/16/32) symbolic",
    assumptions=EXP_ASM + ["parse() stub: consumes all available words, leaves <16 bits, reports FINISH with the given garbage count"])

add("emit_step", "h_emit.c", "h_emit_step", {"C09": "quick", "C05": "quick", "C06": "quick", "C01": "quick"}, defines=["-DNB=4", "-DVMAX=2", "-DMB=3"], extra_src=["crctab.c"],
    cbmc=["--unwind", "14", "--unwindset", "emit.0:4,emit.1:4,emit.2:4,emit.3:4,emit.4:5"], backend="kissat", timeout=600, mem_gb=6, functions=EMIT_FUNCS,
    witnesses=["suspended_with_fresh_byte_pending", "suspended_inside_run_expansion", "suspended_before_fourth_equal_byte", "block_finished", "missing_run_length"],
    bounds="ONE emit() call from each of the six resume states with arbitrary pending/previous bytes, CRC, remaining count 0..4 and IBWT list of 4 entries (byte values 0..2), output buffer of 1..3 bytes; "
           "inductive step: any sequence of buffers follows",
    assumptions=["the six resume states are interpreted as (pending byte, previous byte, run length so far, copies left) - pre-state constructor of h_emit_step"],
    outside=["count bytes above 2 / buffers above 3 bytes per call (loop bodies repeat)"])
add("emit_step_long", "h_emit.c", "h_emit_step", {"C09": "quick", "C01": "quick", "C05": "thorough", "C06": "thorough"}, defines=["-DNB=6", "-DVMAX=1", "-DMB=5"], extra_src=["crctab.c"],
    cbmc=["--unwind", "20", "--unwindset", "emit.0:3,emit.1:3,emit.2:3,emit.3:3,emit.4:7"], backend="kissat", timeout=900, mem_gb=8, functions=EMIT_FUNCS,
    witnesses=["suspended_with_fresh_byte_pending", "suspended_inside_run_expansion", "suspended_before_fourth_equal_byte", "block_finished", "missing_run_length"],
    bounds="ONE emit() call from each of the six resume states, remaining count 0..6, IBWT list of 6 entries (byte values 0..1), output buffer of 1..5 bytes (long enough to run through a whole counted run inside the main loop)",
    assumptions=["the six resume states are interpreted as (pending byte, previous byte, run length so far, copies left) - pre-state constructor of h_emit_step"],
    outside=["count bytes above 1 / buffers above 5 bytes per call"])

# one prefix symbol of the MTF-value stage (run accumulation, flush, block overflow, end-of-block checks)
for _sy, _nm in enumerate(("runa", "runb", "byte", "eob")):
    add("symbol_step_" + _nm, "h_tree.c", "h_symbol_step", {"C05": "quick", "C06": "quick", "C07": "quick", "C13": "quick"},
        defines=["-DVERIF_MAX_CODE_LENGTH=4", "-DVERIF_HUFF_START_WIDTH=2", "-DVERIF_MAX_BLOCK_SIZE=4", "-DNA=5", "-DSYM=%d" % _sy], extra_src=["crctab.c"],
        cbmc=["--unwind", "18", "--unwindset", "h_symbol_step.0:257,h_symbol_step.2:65"], backend="kissat", timeout=300, mem_gb=4,
        functions=["src/decode.c:retrieve (state S_PREFIX: symbol lookup, zero-run accumulation, run flush, end-of-block checks)", "src/decode.c:mtf_one", "src/decode.c:make_tree"],
        witness_mode="any",
        bounds="SCALED build (MAX_BLOCK_SIZE=4, MAX_CODE_LENGTH=4, HUFF_START_WIDTH=2): one prefix symbol (%s; one query per symbol class) from an arbitrary run state "
               "(run length, shift, fill level of the block, primary index symbolic), freshly initialised inverse-MTF list" % _nm,
        assumptions=["fixed complete 4-symbol code built by the real make_tree(); input word concrete per symbol class (only its leading code bits are examined)",
                     "run-state invariant: run >= 2^shift - 1, and the last accepted RUN symbol found run <= MAX_BLOCK_SIZE (established by this step)"],
        outside=["inverse-MTF list states other than the initial one (mtf_one() on a used sliding list)", "production block size 900000"])



# ------------------------------------------------------------------------------- block header stages of retrieve(): bitmap, counts, selectors
HDR_ASM = ["execution cut at hooks VERIF_POINT(SELECTOR) (beyond the selector reachable with one input word), DELTA_DONE, HEADER_DONE",
           "one 32-bit input word per step; SCALED build: MAX_SELECTORS=40 (production 32767), SLIDE_LENGTH=512 (production 8192) so that the retriever state fits the SAT back end"]
HDR_DEFS = ["-DVERIF_MAX_SELECTORS=40", "-DVERIF_SLIDE_LENGTH=512u"]
add("bitmap_counts", "h_header.c", "h_bitmap_step", {"C05": "quick", "C06": "quick", "C07": "quick"}, defines=HDR_DEFS, cbmc=["--unwind", "18"], backend="kissat", timeout=600, mem_gb=8, extra_src=["crctab.c"],
    functions=["src/decode.c:retrieve (states S_BITMAP_SMALL .. S_SELECTOR_MTF)"],
    witnesses=["next_bucket_loaded", "empty_buckets_skipped", "bitmap_complete", "empty_alphabet", "bad_table_count", "no_selectors"],
    bounds="resume inside the symbol map at any of the 16 buckets with any map bits, any later bucket descriptor and any count of used values so far; one input word; "
           "after the last bucket: alphabet size, 3-bit table count, 15-bit selector count, first selector",
    assumptions=HDR_ASM, outside=["content of the inverse-MTF start list (see bitmap_content)"])
add("bitmap_content", "h_header.c", "h_bitmap_step", {"C05": "quick", "C06": "quick"}, defines=HDR_DEFS + ["-DCONTENT", "-DCONTENT_ALPHA0=0"], cbmc=["--unwind", "18"], backend="kissat", timeout=900, mem_gb=8, extra_src=["crctab.c"],
    functions=["src/decode.c:retrieve (state S_BITMAP_SMALL)"], witnesses=["next_bucket_loaded"],
    bounds="one bucket (any of the first 15, any 16 map bits) processed from list position 0, next bucket non-empty: the used byte values are stored in increasing order",
    assumptions=HDR_ASM, outside=["list positions other than 0 at the start of the bucket (the store index is alpha_size, checked by bitmap_counts)"])
add("selector_step", "h_header.c", "h_selector_step", {"C05": "quick", "C06": "quick", "C07": "quick"}, defines=HDR_DEFS, cbmc=["--unwind", "18"], backend="kissat", timeout=300, mem_gb=8, extra_src=["crctab.c"],
    functions=["src/decode.c:retrieve (state S_SELECTOR_MTF)", "src/decode.c:table[] (first-zero table)"],
    witnesses=["selector_names_missing_table", "selector_stored", "longest_selector_code"],
    bounds="one selector from any position of a list of 1..40 selectors (scaled), 2..6 tables, any 32 input bits", assumptions=HDR_ASM)

# ------------------------------------------------------------------------------- inverse BWT
for _nb, _tier, _to in ((4, "quick", 600), (5, "thorough", 3000)):
    add("ibwt_n%d" % _nb, "h_ibwt.c", "h_ibwt", {"C01": _tier, "C06": _tier, "C05": _tier}, defines=["-DNB=%d" % _nb, "-DVMAX=3"], extra_src=["crctab.c"],
        cbmc=["--unwind", str(_nb + 2), "--unwindset", "decode.0:257"], backend="kissat", timeout=_to, mem_gb=8,
        functions=["src/decode.c:decode (counting sort, list construction, in-situ IBWT of the randomised path)"],
        witnesses=["randomised_path", "normal_path", "full_length"],
        bounds="every block of 1..%d bytes over the byte values 0..3: forward block-sorting transform computed by definition in the harness, the real decode() must invert it; normal and randomised path" % _nb,
        assumptions=["reference = definition of the bzip2 block-sorting transform (last column of the sorted cyclic rotations, primary index = row of the block itself)"],
        outside=["blocks above %d bytes; the derandomisation table itself (rand_table stepping starts at byte 617)" % _nb])

# ------------------------------------------------------------------------------- encoder MTF / zero-run stage
for _nb, _tier, _to in ((4, "quick", 600), (6, "thorough", 3000)):
    add("mtf_n%d" % _nb, "h_mtf.c", "h_mtf", {"C01": _tier, "C02": _tier}, defines=["-DNB=%d" % _nb], extra_src=["crctab.c"],
        cbmc=["--unwind", str(2 * _nb + 4), "--unwindset", "h_mtf.0:257,make_map_e.0:257,do_mtf.0:6,do_mtf.1:256,do_mtf.3:4"], backend="kissat", timeout=_to, mem_gb=8,
        functions=["src/encode.c:do_mtf", "src/encode.c:make_map_e"], witnesses=["zero_runs_shorten_the_sequence", "three_values_full_length"],
        bounds="every block-sorted column of 1..%d bytes over up to three byte values (7, 8, 200; which are in use is symbolic)" % _nb,
        assumptions=["byte values concrete (the code only compares and maps them through the symbol map)"],
        outside=["alphabets above three byte values (deeper move-to-front positions), columns above %d bytes" % _nb])

# ------------------------------------------------------------------------------- C10: speculative block discovery (expand.c steps)
add("detach_pos", "h_expand.c", "h_detach_pos", {"C10": "quick", "C09": "quick"}, cbmc=["--unwind", "20"], backend="kissat", timeout=300, mem_gb=6,
    functions=["src/expand.c:detach"], witnesses=["detached", "more_than_a_word_buffered"],
    bounds="input buffers of 1..4 words, block offset 0..8 words, any word position in a block of 1..4 words, 0..63 buffered bits (complete for the position arithmetic up to these sizes)",
    assumptions=EXP_ASM)
add("scan_candidate", "h_expand.c", "h_scan_candidate", {"C10": "quick"}, cbmc=["--unwind", "20"], backend="kissat", timeout=300, mem_gb=6,
    functions=["src/expand.c:do_scan", "src/expand.c:can_scan", "src/expand.c:attach", "src/expand.c:detach", "src/expand.c:on_input_avail", "src/expand.c:init"],
    witnesses=["nothing_found", "candidate_not_ahead_of_parser", "candidate_ahead_of_parser"],
    bounds="one input block of 4 words; parser position and candidate position (any bit position inside the block) symbolic; scan() stub reports a candidate at the chosen position or none",
    assumptions=EXP_ASM + ["scan() stub may report a candidate at ANY position (also spurious ones)"])
for _nu, _tier, _to in ((3, "quick", 900),):
  add("parse_match_u%d" % _nu, "h_expand.c", "h_parse_match", {"C10": _tier}, defines=["-DREAL_HEAP", "-DNU=%d" % _nu], extra_src=[("process.c", ["-include", "/verif/harness/proc_rename.h"])],
    cbmc=["--unwind", "20", "--unwindset", "do_parse.4:%d,advance.0:3,advance.1:%d,advance.2:%d,down_heap.0:4,up_heap.0:4" % (_nu + 2, _nu + 2, _nu + 2)], backend="kissat", timeout=_to, mem_gb=8,
    functions=["src/expand.c:do_parse (block found)", "src/expand.c:can_parse", "src/expand.c:attach", "src/expand.c:detach", "src/expand.c:advance", "src/process.c:up_heap", "src/process.c:down_heap"],
    witnesses=["stale_candidate_discarded", "candidate_confirmed", "block_only_the_parser_found"],
    bounds="0..%d candidates on record at arbitrary distinct bit positions of a 4-word input block, each finished or unfinished; the parser finds a block header ending at an arbitrary bit position" % _nu,
    assumptions=["codec entry points replaced by contract stubs (parse() stub: block header found at the chosen position)", "scheduler lock and I/O threads stubbed; REAL heap helpers of process.c (the confirmation logic depends on the queue order)"])

add("selector_clamp", "h_tree.c", "h_selector_clamp", {"C06": "quick", "C05": "quick"}, defines=["-DNA=5"], extra_src=["crctab.c"],
    cbmc=["--unwind", "24", "--unwindset", "make_tree.7:1026,make_tree.8:1026"], backend="kissat", timeout=600, mem_gb=6,
    functions=["src/decode.c:retrieve (bound on used selectors)", "src/decode.c:make_tree"], witnesses=["clamp_observed", "surplus_selectors_declared"],
    bounds="PRODUCTION constants; declared selector count symbolic 1..32767; the bound retrieve() applies is compared with ceil((MAX_BLOCK_SIZE+1)/50)",
    assumptions=["retrieve() resumed with the last table complete and a first group selecting an unusable (oversubscribed) table, so it returns at once"])

# ------------------------------------------------------------------------------- C20: length-limited optimal prefix codes
for _L, _A, _tier, _to in ((3, 3, "quick", 900), (3, 4, "quick", 1200), (3, 5, "thorough", 3000), (4, 4, "thorough", 3000)):   # L=4/A=5: no verdict in 3000 s, dropped
    add("assign_opt_L%d_A%d" % (_L, _A), "h_prefix.c", "h_assign_opt", {"C20": _tier, "C02": _tier}, defines=["-DVERIF_MAX_CODE_LENGTH=%d" % _L, "-DAS=%d" % _A],
        cbmc=["--unwind", str(_A + 2), "--unwindset", "package_merge.0:%d,package_merge.1:%d,package_merge.2:%d,assign_codes.4:%d,assign_codes.2:%d,assign_codes.6:%d"
              % (_L + 2, (2 << _L) + 2, _A + 1, _L + 2, _L + 2, _L + 2)],
        backend="kissat", timeout=_to, mem_gb=10, extra_src=["crctab.c"],
        functions=["src/encode.c:assign_codes", "src/encode.c:package_merge", "src/encode.c:sort_alphabet"],
        witnesses=["competitor_considered"] + (["length_limit_reached"] if _A > _L else []) + (["shorter_competitor_considered"] if _L < _A <= (1 << (_L - 1)) else []),   # a complete code shorter than L exists only for <= 2^(L-1) symbols
        bounds="SCALED build: MAX_CODE_LENGTH=%d (production 20); alphabet of %d symbols with symbolic frequencies 0..15; the competitor code is a second symbolic length vector (all complete prefix codes "
               "with the same length limit are covered by the one query)" % (_L, _A),
        assumptions=["scaled code-length limit through the guarded hook; the algorithm text is the production text",
                     "the explicit-stack loop of package_merge() is unwound 2^(L+1)+2 times (unwinding assertion proved)"],
        outside=["production limit 20 and alphabets above %d symbols (27 GB / no verdict)" % _A, "make_code_lengths() (the clustering trees) and the choice of tables per group"])

# ------------------------------------------------------------------------------- C02: dummy second table of single-table blocks
for _nm, _tier in ((2, "quick"), (37, "quick"), (150, "thorough")):
    add("dummy_table_nm%d" % _nm, "h_gpc.c", "h_dummy_table", {"C02": _tier}, defines=["-DNM=%d" % _nm],
        cbmc=["--unwind", "262"], backend="kissat", timeout=1800, mem_gb=8, extra_src=["crctab.c"],
        remove_bodies=["generate_initial_trees", "assign_codes"], shrink="encoder_bucket",
        unwind_is_violation=True,   # the bound (262) exceeds the table length (259): a loop that needs more writes outside the table
        functions=["src/encode.c:generate_prefix_code (sentinel padding, table renumbering, dummy second table)"],
        witnesses=["dummy_single_length", "dummy_two_lengths", "largest_alphabet", "smallest_alphabet"],
        bounds="alphabet size symbolic over its whole range 3..258 (production constants); block of %d MTF symbols (concrete), one table in use" % _nm,
        assumptions=["clustering passes skipped (cluster_factor = 0) with the selector list they leave for one table (all groups use table 0) as pre-state",
                     "encoder_state's sort bucket array (the other union member) and the selector arrays are shrunk textually to 16 / 8 entries (at most 3 groups are in play); the code tables keep production size; the union holding them is turned into a struct (CBMC 6.11 loses field updates of union members; no member is read after the other is written on this path)",
                     "bodies of generate_initial_trees() and assign_codes() cut in the solver build (arbitrary return value, no effects): neither writes the dummy table; the native replay runs them"],
        outside=["blocks that start with two or more tables and end up using one (same code path from the renumbering loop on, not run here)", "the clustering passes themselves"])

# ------------------------------------------------------------------------------- C02/C01: transmit() read back by a strict bit-level inspector
TX_ASM = ["pre-state: arbitrary encoder state within the invariant its producers establish (2..6 tables, lengths 1..20, codes fit their length, sentinel symbol costs no bits, tree_pad 0..3, "
          "announced size = sum of the field widths and a whole number of bytes)",
          "encoder_state's sort bucket array and selector arrays shrunk textually, its union turned into a struct (CBMC 6.11 loses field updates of union members; transmit() only uses one member)",
          "one group of 50 symbols (block of 3 MTF symbols, sentinel fill)"]
TX_OUT = ["blocks with more than one group / more than 3 selectors", "delta runs longer than 3 steps (same two-bit step repeated)", "that encode()/generate_prefix_code() establish the pre-state (assign_opt_*, dummy_table_*, mtf_* cover parts)",
          "agreement with libbz2 itself (not encodable); the inspector is written from the format"]
def tx_ob(name, tier, part, defs, to, bounds, wit, loops45):
    add(name, "h_transmit.c", "h_transmit", {"C02": tier, "C01": "thorough"}, defines=["-DPART=%d" % part] + defs,   # C01's quick tier stays short; the same queries run in C02's quick tier
        cbmc=["--unwind", "52", "--unwindset", "transmit.3:6,transmit.4:%d,transmit.5:%d,transmit.6:6,transmit.7:8,transmit.9:3" % (loops45, loops45)],
        backend="kissat", timeout=to, mem_gb=6, extra_src=["crctab.c"], shrink="encoder_bucket",
        functions=["src/encode.c:transmit (PUTBIT/SEND/DUMP macros)"], witnesses=["inspected", "size_multiple_of_4", "size_not_multiple_of_4"] + wit,
        bounds=bounds, assumptions=TX_ASM, outside=TX_OUT)
tx_ob("transmit_map_sel", "quick", 1, ["-DBMASK=0x8101u"], 1800,
      "symbol map: buckets 0, 7 and 15 arbitrary (others empty); table count 2..6 and 1..3 selectors symbolic; CRC and primary index fields symbolic; table lengths concrete",
      ["all_selectors", "six_tables", "all_buckets_used", "only_last_bucket"], 3)
tx_ob("transmit_map_all", "thorough", 1, [], 6000,
      "symbol map: all 16 buckets arbitrary; table count 2..6 and 1..3 selectors symbolic; CRC and primary index fields symbolic; table lengths concrete",
      ["all_selectors", "six_tables", "all_buckets_used", "only_last_bucket"], 3)
tx_ob("transmit_lengths_a3", "quick", 2, ["-DAS=3", "-DSEL0=1"], 1800,
      "two tables over a 3-symbol alphabet with symbolic code lengths 1..20 (adjacent lengths differ by at most 3), tree_pad 0..3 symbolic, tables sent in swapped order",
      ["pad3_on_length3", "pad3_on_length4", "pad3_on_length20", "both_extremes"], 5)
tx_ob("transmit_lengths_a4", "thorough", 2, ["-DAS=4", "-DSEL0=0"], 3000,
      "two tables over a 4-symbol alphabet with symbolic code lengths 1..20 (adjacent lengths differ by at most 3), tree_pad 0..3 symbolic",
      ["pad3_on_length3", "pad3_on_length4", "pad3_on_length20", "both_extremes"], 5)
tx_ob("transmit_codes", "quick", 3, [], 1800,
      "the group's table: symbolic lengths 1..20 (adjacent lengths differ by at most 3) and symbolic code bits; the block's 2 MTF symbols before end-of-block symbolic",
      ["longest_codes", "shortest_code"], 5)

# ------------------------------------------------------------------------------- expand.c scheduler: rely/guarantee steps (conservation)
RGX_ASM = ["codec entry points replaced by stubs returning any result their interface allows; heap helpers replaced by a bag with correct head extraction (real helpers: heap_ops)",
           "RG: at every lock acquisition counters, queue sizes and the parser token are arbitrary subject to INV of h_expand_rg.c (rely); C12 assumed",
           "two input blocks of two words are queued; output-slot total symbolic 3..6 (the production factor 16*workers does not enter the invariant)"]
RGXB = "worker count 1..2, output slots 3..6, counters / queue sizes / ghost in-flight counts arbitrary subject to INV; one task execution with re-havoc at every lock release"
for _e, _w in (("emit", ["emit_enabled", "emit_needs_another_buffer", "emit_on_reserved_slot"]), ("reorder", ["reorder_enabled", "block_written", "bogus_block_dropped"]),
               ("parse", ["parse_enabled", "parser_finds_block", "parser_needs_input", "parser_finishes"]),
               ("retrieve", ["retrieve_enabled", "retrieve_needs_input", "refuted_candidate_aborted"]), ("scan", ["scan_enabled", "candidate_reported", "unord_q_filled_to_the_reservation_bound"]),
               ("write_complete", ["write_completes"]), ("terminate", ["terminates"])):
    add("rgx_" + _e, "h_expand_rg.c", "h_rgx_" + _e, {"C11": "quick", "C13": "quick", "C10": "quick"} if _e in ("retrieve", "emit", "scan", "parse", "reorder") else {"C11": "quick", "C13": "quick"}, cbmc=["--unwind", "10"], object_bits=10, backend="kissat", timeout=1500, mem_gb=6,
        functions=["src/expand.c:do_%s / can_%s" % (_e, _e) if _e not in ("write_complete", "terminate") else "src/expand.c:on_write_complete" if _e == "write_complete" else "src/expand.c:can_terminate",
                   "src/expand.c:attach", "src/expand.c:detach", "src/expand.c:advance", "src/expand.c:init", "src/process.h:queue macros"],
        witnesses=_w, bounds=RGXB, assumptions=RGX_ASM + (["J (argued in DESIGN.md, not decided): each record in unord_q is backed by a distinct work unit or output slot held by a speculative job, so at most workers+out_slots-4 records wait when a scan starts; decided: the capacity the real init() allocates holds the record the real do_scan() adds then"] if _e == "scan" else []),
        outside=["capacity bounds of order_q, scan_q and input_q, and the relational invariant J behind the unord_q bound (speculative jobs); liveness of the decompressor"])

# ===== keep this section LAST: it derives obligations from everything registered above =====
# ------------------------------------------------------------------------------- C08: the same harnesses with CBMC's UB checks on
import copy as _copy
_UB_BASES = ["symbol_step_eob", "symbol_step_byte", "symbol_step_runa", "emit_step", "delta_window", "delta_start", "tree_symbol_L5_W2_A5", "emit_crc_n4", "parse_nw3_blk1", "parse_nw3_ecrc2", "parse_nw3_stream1",
             "collect_len1_m9_all", "collect_len2_m6_rs3", "collect_inline_L5_s0f", "collect_inline_L5_s07", "xread_fill", "xwrite_short",
             "reorder_checks", "parse_finish", "heap_ops", "rg_transmit", "rg_collect", "rg_reorder", "dfa_big", "sniff", "transmit_codes", "dummy_table_nm2"]
_UB_QUICK = ["symbol_step_eob", "symbol_step_byte", "symbol_step_runa", "delta_window", "delta_start", "tree_symbol_L5_W2_A5", "parse_nw3_blk1", "collect_len1_m9_all", "collect_inline_L5_s07", "xread_fill", "xwrite_short",
             "reorder_checks", "parse_finish", "heap_ops", "rg_transmit", "rg_collect", "rg_reorder", "dfa_big", "sniff", "dummy_table_nm2"]
for _o in list(OBLIGATIONS):
    if _o.name in _UB_BASES:
        _u = _copy.copy(_o)
        _u.name = _o.name + "_ub"
        _u.ub = True
        _u.props = {"C08": "quick" if _o.name in _UB_QUICK else "thorough"}
        if _o.name.startswith("symbol_step"):
            _u.props["C07"] = "quick"      # "never crashes" on overrunning blocks
        _u.timeout = 2400 if _o.name in ("transmit_codes", "dummy_table_nm2") else 900
        _u.bounds = _o.bounds + "; run with CBMC's standard checks (array bounds, pointer validity incl. use after free, signed overflow, undefined shifts, division by zero) in addition to the functional assertions"
        _u.outside = list(_o.outside) + ["pointer-overflow (forming an out-of-bounds pointer without dereferencing it) is not checked", "decisions on uninitialised memory are visible only as functional failures of the twin obligation"]
        OBLIGATIONS.append(_u)


# registry sanity: names are unique
assert len({o.name for o in OBLIGATIONS}) == len(OBLIGATIONS), "duplicate obligation names: %s" % sorted({o.name for o in OBLIGATIONS if [x.name for x in OBLIGATIONS].count(o.name) > 1})

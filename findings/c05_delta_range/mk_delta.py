import sys, struct
def crc32bz(data):
    crc=0xffffffff
    for b in data:
        crc ^= b<<24
        for _ in range(8):
            crc = ((crc<<1)^0x04C11DB7)&0xffffffff if crc&0x80000000 else (crc<<1)&0xffffffff
    return crc^0xffffffff
class BW:
    def __init__(s): s.bits=[]
    def put(s,n,v):
        for i in range(n-1,-1,-1): s.bits.append((v>>i)&1)
    def raw(s,str_): 
        for c in str_: s.bits.append(int(c))
    def bytes(s):
        b=s.bits+[0]*((-len(s.bits))%8)
        return bytes(int(''.join(map(str,b[i:i+8])),2) for i in range(0,len(b),8))
def stream(table1_bits):
    data=b'a'; c=crc32bz(data)
    w=BW(); w.put(8,0x42);w.put(8,0x5a);w.put(8,0x68);w.put(8,0x39)
    w.put(24,0x314159);w.put(24,0x265359);w.put(32,c);w.put(1,0);w.put(24,0)
    big=1<<(15-6); w.put(16,big); w.put(16,1<<(15-1))   # 'a'=0x61: bucket 6, bit 1
    w.put(3,2); w.put(15,1); w.raw('0')               # 2 trees, 1 selector -> tree 0
    w.raw('00001'+'0'+'10'+'0'+'0')                    # tree0: lens 1,2,2
    w.raw(table1_bits)                                 # tree1
    w.raw('0'+'11')                                    # RUNA, EOB
    w.put(24,0x177245);w.put(24,0x385090);w.put(32,c)
    return w.bytes()
open('ok.bz2','wb').write(stream('00001'+'0'+'10'+'0'+'0'))
open('start0.bz2','wb').write(stream('00000'+'10'+'0'+'10'+'0'+'0'))       # start value 0, then +1
# 20 -> 21 -> 20 excursion: lens must still be complete: use lens (1,2,2) reached via detour: start=20? need down to 1: 19 x '11'
open('excur.bz2','wb').write(stream('10100'+'10'+'11'+'11'*19+'0'+'10'+'0'+'0'))  # 20,+1(21),-1,... down to 1

#!/bin/bash
# run every claimed property's quick (or given tier) check sequentially; summary at the end
tier=${1:-quick}
cd /verif
for p in $(python3 -c "import json;print(' '.join(c['property_id'] for c in json.load(open('MANIFEST.json'))['checks']))"); do
  s=$(date +%s); python3 check.py $p --tier $tier > /tmp/runall_${tier}_$p.log 2>&1; rc=$?; e=$(date +%s)
  echo "$p rc=$rc $((e-s))s $(tail -1 /tmp/runall_${tier}_$p.log)"
done

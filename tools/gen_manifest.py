#!/usr/bin/env python3
"""Regenerates /verif/MANIFEST.json from the obligation registry + the per-property texts below."""
import json, os, sys
sys.path.insert(0, "/verif")
import obligations

TECH = "bounded symbolic execution of the real C code (goto-cc + cbmc 6.11, SAT/SMT verdict per obligation), witness twins, native replay of counterexamples"

CLAIMS = {
 "C01": ("5 (C01)", 'Stage-wise, bounded: each stage of the pipeline that fits is decided by solver queries over the real code against a short reference, for all inputs inside the stated bounds: initial RLE collect() (byte-wise reference, arbitrary pre-states, in-line shapes), MTF/zero-run coding do_mtf(), stream frame + CRC fold of compress.c; on the way back the header parser, bitmap/selector/delta stages, decoding tables + symbol lookup, one-symbol step of the MTF-value loop, inverse BWT decode() (against the definition of the transform), and the resumable un-RLE emit() (split-independence and inductive step). The composition argument is written in DESIGN.md; it is not a whole-pipeline round-trip proof.',
         'transmit() is read back bit by bit by a strict inspector written from the format (transmit_*, in the thorough tier of this property and in the quick tier of C02: symbol map, selectors, delta-coded lengths with tree_pad, codes, byte-exact size), assign_codes() at scaled limits (assign_opt_*). NOT covered: divbwt() (forward BWT), the clustering passes of generate_prefix_code()/make_code_lengths(), mtf_one() on a used sliding list, the fast decoding path: a defect confined to those is not detected. Scaled format constants where stated per obligation; schedules only through C03/C11.'),
 "C02": ("5 (C02)", "Bounded, partial: block capacity (collect() never exceeds max_block_size, INV re-established), at most nblock+1 MTF symbols (sizes the selector arrays), header 'BZh'+level, end-of-stream magic and combined CRC = fold of stored block CRCs restarted per stream (also for an empty second stream), CRC table = CRC-32/BZIP2; the block body written by transmit() is walked bit by bit by a strict inspector written from the format (magic, stored CRC, randomisation flag 0, primary index field, two-level symbol map, table count 2..6, selector count and unary selectors naming existing tables, start lengths and every running delta value within 1..20 incl. the tree_pad padding trick, codes, announced size hit exactly, whole bytes, zero padding, nothing written behind the (size+3)/4 words compress.c allocates) for arbitrary small encoder states; the dummy second table of a single-table block is complete with lengths 1..20 for every alphabet size 3..258; assign_codes() writes complete tables within the (scaled) limit; all by solver queries over the real code.",
         'NOT covered: blocks with several groups in transmit(), delta runs above 3 steps, that the primary index divbwt() returns lies inside the block, the clustering passes (make_code_lengths) and multi-table renumbering of generate_prefix_code(), the 18002 selector bound at production block sizes; libbz2 agreement is not encodable (the inspector is written from the format).'),
 "C03": ("5 (C03)", "xread() fills whole chunks under every read() fragmentation; xwrite() transfers every byte once under every short-write pattern; in_granul == level*100000; "
         "the real reorder queue hands blocks to the writer in position order with the combined CRC restarted per stream; rely/guarantee steps of the real tasks keep the monitor invariant for 1..3 workers.",
         "Assumes C12 (shared state only touched under the scheduler lock). Codec calls are stubs in the scheduler queries. Non-nested overlaps of running tasks are covered only through the rely/guarantee argument, not explored."),
 "C04": ("5 (C04)", "collect() is proved equal to a byte-wise greedy-packing reference for one call from ANY valid pre-state (buffers of 0..2 symbolic bytes, capacity symbolic), INV is inductive, the in-line fast path is checked for every byte-equality pattern of 5-byte buffers the long-run patterns of 6/7 bytes and runs crossing the 259 limit inside one call; chunk size == block capacity; default mode: each piece is collected by a fresh encoder of the level's capacity from where the previous block stopped; --sequential: an unfinished block is continued with the next piece; hence blocks and splits of any length by composition.",
         'Capacity explored 1..9 bytes (symbolic), not 100000..900000; 3-byte buffers from arbitrary pre-states are outside (the in-line shapes and the 259/260-byte run queries cover the paths they would add); the flush guard of the sequential collector (a partly filled block is handed on only at end of input; seeded change C03-3 is missed) is not covered.'),
 "C05": ("5 (C05)", 'Inductive steps over the real decoder, each against a strict reference and in both directions: symbol map buckets, table/selector counts, every selector, every 6-bit delta window and table start (strict bzip2 rule), decoding tables usable iff Kraft-complete + canonical symbol lookup, one symbol of the MTF-value loop (zero runs, run flush, block overflow, empty block, primary index), inverse BWT, emit() (missing run length, split-independence, resume states); parse() against the stream grammar from every grammar position (magic, level digit, CRC capture, combined CRC, stream CRC for all values, byte alignment, trailing-garbage rule); expand.c do_reorder() (declared size, block CRC for all values, decoder status) and do_parse() end-of-input padding rule.',
         'Scaled constants in several queries (code length 4..6, start width 2..3, block size 4, 40 selectors, slide 512). NOT covered: mtf_one() on a used sliding list, the fast-path copy of the symbol loop, randomised-block derandomisation beyond byte 617, composition across several symbols in one call.'),
 "C06": ("5 (C06)", 'Same obligations as C05 read in the accepting direction: every strictly valid bucket / selector / delta window / header sequence / complete table / symbol / block is accepted and decoded as the reference says; the two documented rejections are asserted as rejections.',
         'Same exclusions as C05; surplus selectors (18001 clamp), the 899999 primary index at production size and third-party encoder output as such are not covered.'),
 "C07": ("5 (C07)", "The real main()/signals.c under a symbolic OS: a decoder error reported from the main thread or a sub-thread ends in exit status 1 (or the signal), with a diagnostic, with no partial output file, for every system-call failure pattern; work()'s header sniffing rejects every non-bzip2 start; every malformed field covered by C05's steps returns its error code, do_reorder()/do_parse() turn block-level errors into failf(); the overrunning-block step runs with bounds checks on (no crash); the main thread is always woken.",
         "Hangs inside worker threads and the decompression scheduler's liveness are outside; detection sites not covered by C05 (see there)."),
 "C08": ("5 (C08)", "The functional harnesses re-run with CBMC's standard checks on (array bounds, pointer validity incl. use after free, signed overflow, undefined shifts, division by zero): "
         "delta stage, decoding tables + symbol lookup, parser, collect(), xread/xwrite, format sniffing, do_reorder/do_parse of expand.c, the compression tasks and heap helpers - for all inputs inside each harness's bound.",
         "Only the code those harnesses reach, within their bounds: divbwt.c (sort stacks), the fast decoding path, mtf_one(), decode(), transmit() and generate_prefix_code() are NOT covered. Pointer-overflow is not checked; "
         "a decision on uninitialised memory would show only as a functional failure. Schedules are not explored."),
 "C09": ("5 (C09)", 'emit() gives the same bytes/verdict/CRC wherever up to two output-buffer boundaries fall, and one emit() call from each of the six resume states agrees with a resumable reference incl. the state left behind (inductive); xwrite() with fd -1 (-t) counts but writes nothing; do_reorder() treats -t like a real output; parse(), the bitmap/selector/delta stages and the MTF-value loop are resumable one word at a time (inductive steps from arbitrary suspended states); detach() positions identify absolute bit positions; the end-of-input padding rule does not depend on where the parser stopped.',
         "attach() across several input blocks and do_emit()'s buffer chaining are covered only by the RG steps with stub codecs; schedules only through the assumption C12."),
 "C10": ("5 (C10)", "Step properties over the real expand.c code with a scan() stub that may report a candidate at ANY bit position: a candidate at or before the parser's position creates nothing; a candidate ahead becomes one speculative job recorded under its bit position; "
         "when the parser finds a block it discards every record it has passed (finished ones released, unfinished ones marked not legitimate), confirms the record at exactly its own bit position and otherwise starts its own retrieve job; do_reorder() drops a block found before the expected position and "
         "hands a block to the writer only at the position the parser queued; detach() positions identify absolute bit positions; plus the scanner/parser unit lemmas (C14, parse steps).",
         "Step-wise, not a whole-run exploration: do_retrieve()'s legitimacy bookkeeping and the interplay of several running tasks are NOT covered; 'fails exactly when the sequential decoding fails' is covered only through C05's steps. Codec calls are stubs; candidates on record <= 1 (quick) / 3 (thorough)."),
 "C11": ("5 (C11)", 'Rely/guarantee steps over the real tasks of BOTH schedulers: from any state satisfying the monitor invariant (conservation of work units, output slots and input pieces, job queues within capacity) every task of compress.c (collect, collect_seq, transmit, reorder, write-complete, input-available) and of expand.c (parse, scan, retrieve, emit, reorder, write-complete) re-establishes it at every lock release, with the state re-havocked at every lock acquisition; the transmit reservation rule (last two slots only for the block at the current stream position); termination guards imply all queues empty and all slots returned; real heap helpers keep heap order; the writer receives blocks in stream order; only the parser and the reorder task may end a run with a data error.',
         'Deadlock-freedom / termination is NOT proved (only safety invariants, the reservation rule and the termination guards). For expand.c the unord_q capacity is checked against the reservation bound under the paper argument J of DESIGN.md (records are backed by resources of speculative jobs; J itself is not decided); the bounds of order_q, scan_q and input_q are not covered. Assumes C12. Worker count 1..3 (compress) / 1..2 (expand); codec calls are stubs.'),
 "C13": ("5 (C13)", "Mechanism, not RSS: set_memory_constraints() yields slot totals <= 16w+2 and buffer sizes <= 1 MiB for every worker count 1..65535/level/mode; both schedulers conserve work units and output slots (RG steps), so jobs and buffers in flight are bounded by those totals; every allocation of a decompression task is bounded by a constant plus one output buffer; the retriever state is released exactly once per block; an accepted block's buffer always goes to the writer (which frees it), also with -t.",
         'RSS itself is not observable by this technique; the encoder/decoder working buffers are stubs in the scheduler queries (their sizes are constants of the level); input-slot accounting of the reader thread is not covered.'),
 "C14": ("5 (C14)", 'mini_dfa == KMP automaton of the 48-bit pattern for all 48x2 transitions; big_dfa == 8 mini steps for all 49x256; scan() == first complete occurrence (48+32 bits) at/after the skip point, exact end position, on all streams of <=32 live bits + 2 and + 4 words (3 and 5 in the thorough tier); the `goto again` loop is unwound statically and the absence of a third traversal is proved.',
         'Blocks longer than the bound repeat the word loop (finite automaton). make-scantab.pl itself is not encoded; the generated header is what runs.'),
 "C15": ("5 (C15)", "parse() compares stored and computed stream CRC for ALL values at every grammar position and captures exactly the 32 header bits as the block CRC; do_reorder() compares block CRC and stored CRC for ALL values (solver query, not bit-flip sampling); combined CRC fold checked on both the compressor and the parser side; emit()'s CRC is the CRC of the emitted bytes.",
         'Worker count only through C11/C12 (assumed); that every block reaches do_reorder() is scheduler liveness (not covered).'),
 "C16": ("5 (C16)", "Real main.c + signals.c under a symbolic OS with a failure switch on EVERY system-call execution, SIGINT/SIGTERM/sub-thread failures arriving in halt(), and the data-safety predicate asserted after every mutating call (SIGKILL): input intact or complete closed output at every instant; no partial output after exit 1 / death by signal.",
         "work() is a contract stub (content states, not bytes); kernel semantics of O_EXCL/unlink are the model's; unlink() of the run's own output is assumed not to fail."),
 "C17": ("5 (C17)", "Same model: without -f a pre-existing output is never touched (also when stderr fails), non-regular / multiply-linked operands are skipped with a warning, compressed suffixes are skipped when compressing, output names follow the suffix table, permission bits / times are transferred (umask symbolic), input removed iff not -k/-c/-t.",
         "Operand names are concrete per obligation (one per suffix rule); symlink/directory distinctions collapse to 'not regular'."),
 "C18": ("5 (C18)", "Two-operand runs of the real main(): per-operand predicates of C16/C17 hold for both, exit status 4 iff a warning, a fatal error leaves earlier operands complete and later ones untouched; compress.c's per-run init() restarts the combined CRC (two streams in one process).",
         "process.c/expand.c per-run resets are not covered; operand mixes limited to the registered five."),
 "C19": ("5 (C19)", "work() decides 'BZh1..9' exactly, for every 0..6-byte input under every read() fragmentation, and passes the sniffed bytes through once; the real copy callbacks + reader/writer bodies (run sequentially) copy every byte in order and signal completion exactly when eof and all buffers are back.",
         "Buffers of 1..2 bytes instead of 64 KiB, at most two buffers in flight, reader-then-writer order only (no real interleaving)."),
 "C20": ("5 (C20)", "assign_codes() -> sort_alphabet() -> package_merge() on a symbolic frequency vector: the written lengths are within 1..L, Kraft-complete, and NO complete prefix code whose longest code is no longer than the chosen longest code is cheaper "
         "(the competitor is a second symbolic length vector, so one query covers every competitor). Scaled code-length limit L=3 (alphabets 3 and 4; 5 in the thorough tier) and L=4 (alphabet 4; thorough); the limit is active at these sizes.",
         "SCALED: production limit 20 and alphabets above 5 symbols are out of reach (27 GB / no verdict); make_code_lengths() (clustering trees), the assignment of groups to tables and the 'no code longer than 20 bits' clause at production size are not covered. "
         "A defect that needs deep package nesting (depth >= 16) is not detectable at these bounds."),
 "C21": ("5 (C21)", "xread()/xwrite(): a failing call never returns to the caller and is reported with its errno; filter runs of the real main()/signals.c: message printed iff errno not EPIPE/EFBIG, exit 1 or death by the promoted SIGPIPE/SIGXFSZ, never exit 0, main thread always woken (no hang in halt()).",
         "'Promptly' (time) and hangs inside other threads are outside; the sub-thread side of bailout() is modelled by its effect."),
 "C22": ("5 (C22)", "opts_setup() against an executable model of the documented rules: invocation name symbolic (7 names), one command-line token from a 32-entry vocabulary, at most one of LBZIP2/BZIP2/BZIP set (12 values incl. double/leading/trailing separators); thorough tier: two tokens / all three variables.",
         "-n/-m, --help/--version, FILE operands mixed with options are outside; strtok modelled."),
}

NOT_APPLICABLE = {
 "C12": "needs an engine with a thread/memory model: CBMC's concurrency mode rejects this code ('pointer handling for concurrency is unsound'), no other engine is installed; C12 is the stated assumption of the scheduler checks (DESIGN.md 6)",
}

def main():
    props = [json.loads(l) for l in open("/verif/properties.jsonl")]
    have = {}
    for o in obligations.OBLIGATIONS:
        for p, t in o.props.items():
            have.setdefault(p, set()).add(t)
    checks, na = [], []
    for p in props:
        pid = p["id"]
        if pid in CLAIMS and pid in have and "quick" in have[pid]:
            ref, text, note = CLAIMS[pid]
            checks.append({
                "property_id": pid,
                "quick_cmd": "python3 check.py %s --tier quick" % pid,
                "thorough_cmd": "python3 check.py %s --tier thorough" % pid,
                "evidence_file": "/verif/evidence/%s.json" % pid,
                "replay_cmd_template": "python3 check.py --replay {path}",
                "engine": "cbmc",
                "level_claimed": {"category": "model_checking", "text": text, "design_ref": "DESIGN.md " + ref},
                "level_note": note + " Bounds, stubs and assumptions of every obligation are repeated in the evidence file.",
                "technique": TECH,
            })
        else:
            na.append({"property_id": pid, "reason": NOT_APPLICABLE.get(pid, "not claimed at this commit (no registered quick obligation)")})
    old = json.load(open("/verif/MANIFEST.json"))
    m = {
        "version": 1,
        "setup_cmd": "python3 -m py_compile check.py obligations.py && cbmc --version >/dev/null && goto-cc --version >/dev/null && kissat --version >/dev/null",
        "hooks": {
            "guard": "KJN_LBZIP2_VERIF",
            "enable": "every check compiles /repo/src/*.c from the working tree with goto-cc (and gcc for replays) -DKJN_LBZIP2_VERIF plus the scale defines named per obligation (VERIF_MAX_CODE_LENGTH, VERIF_HUFF_START_WIDTH, VERIF_MAX_BLOCK_SIZE, VERIF_MAX_SELECTORS, VERIF_SLIDE_LENGTH) and harness-defined VERIF_POINT(id,arg)",
            "baseline_off_cmd": "cmake -G Ninja -S /repo -B /repo/_build >/dev/null && cmake --build /repo/_build >/dev/null && ctest --test-dir /repo/_build -j8 --timeout 900",
            "source_commits": ["1c59d0d", "503ddb6", "1354bf0", "77ee45a", "e73309d"],
            "add_only": True,
        },
        "engines": [{"name": "cbmc", "path": "/verif/check.py", "serves_properties": [c["property_id"] for c in checks],
                     "kind_free_text": "bounded model checker for C (cbmc 6.11.0 + goto-cc, back ends minisat / kissat / z3) driven by check.py over harness/*.c that #include the real /repo/src/*.c"}],
        "checks": checks,
        "notes": "One fix: commit (92fe724, C05 delta range) is recorded in known_findings.json as fixed. seeded/ holds confirmed seeded defects and which obligation catches each (DESIGN.md 9).",
        "not_applicable": na,
    }
    json.dump(m, open("/verif/MANIFEST.json", "w"), indent=1)
    print("claimed:", [c["property_id"] for c in checks])
    print("not claimed:", [n["property_id"] for n in na])

main()

#!/usr/bin/env python3
"""Writes seeded/<id>/meta.json from confirm.json + the table below (what each change needs, which obligation catches it)."""
import json, os, glob
T = {
 "C01-1": ("C01", "emit() saves resume state 1 instead of 5 when the output buffer fills right after a counted run; needs a block decoding to > 900000 bytes with a 259-run ending on the buffer boundary", ["emit_step_long"]),
 "C01-2": ("C01", "collect() flags the wrong symbol-map entry for the count byte of a run finished across two calls; needs --sequential and a 4..258 run straddling an input chunk", ["collect_len1_m9_all", "collect_len2_m6_rs4p"]),
 "C02-1": ("C02", "save_crc hoisted out of collect()'s run loop; needs a block filling exactly on the count byte of a run of 5..258 followed by a different byte", ["collect_inline_L6_s0f", "collect_inline_L7_s1f"]),
 "C02-2": ("C02", "finish_run capacity test widened from rle_state==3 to >=3; needs --sequential, a run across a chunk boundary at capacity-1", ["collect_len1_m9_all", "collect_len2_m6_rs4p"]),
 "C03-1": ("C03", "combined_crc not reset per operand; needs two FILE operands, the first non-empty", ["stream_frame"]),
 "C03-2": ("C03", "xwrite() retries with the original length after a short write; needs an output that accepts short writes", ["xwrite_short"]),
 "C04-1": ("C04", "state-3 look-ahead treats 'buffer exhausted' as 'block full'; needs --sequential and a run of exactly three ending a read buffer at capacity-1", ["collect_inline_L5_s0d"]),
 "C04-2": ("C04", "compression in_granul grown to a multiple of the block size for -1/-2; needs level 1 or 2 and input with runs", ["memconstraints"]),
 "C05-1": ("C05", "emit() resume state 3 returns instead of reporting a missing run length; needs the output buffer boundary inside a final run of four", ["emit_step", "emit_split_n5"]),
 "C05-2": ("C05", "end-of-file padding test compares bits with bytes; needs a file truncated by 1..3 zero bytes", ["parse_finish"]),
 "C06-1": ("C06", "selector clamp 18001 replaced by MAX_GROUPS (18000); needs a full 900000-byte block without adjacent equal BWT bytes", ["selector_clamp"]),
 "C06-2": ("C06", "emit() main loop saves state 2 instead of 3 before the fourth equal byte; needs a run starting 3 bytes before an output buffer boundary", ["emit_step", "emit_split_n5"]),
 "C07-1": ("C07", "same change as C05-2 (found independently)", ["parse_finish"]),
 "C07-2": ("C07", "block-overflow check moved after the final run copy (heap overrun, SIGSEGV); needs an overrun in the run flushed by end-of-block", ["symbol_step_eob_ub"]),
 "C08-1": ("C08", "fast decoding path entered with 31 instead of 32 words left; needs a group of fifty 20-bit codes at a chunk end", []),
 "C08-2": ("C08", "primary index test >= weakened to >; needs primary index == block size", ["symbol_step_eob", "symbol_step_eob_ub"]),
 "C09-1": ("C09", "end-of-file padding check keyed on the global eof flag; needs trailing garbage and a reader that ran ahead (schedule dependent)", ["parse_finish"]),
 "C09-2": ("C09", "same change as C01-1 (found independently)", ["emit_step_long"]),
 "C10-1": ("C10", "refuted speculative retrieve job is only dropped while it still needs input; needs a spurious header whose job outlives the parser passing it", ["rgx_retrieve"]),
 "C10-2": ("C10", "do_emit() ends the run on ERR_RUNLEN of an unconfirmed block; needs a spurious magic followed by a well-formed block ending in four equal bytes, >= 2 workers", ["rgx_emit"]),
 "C11-1": ("C11", "can_transmit() reservation test true for every block; needs a slow block followed by >= 2w+2 fast ones (deadlock)", ["rg_transmit"]),
 "C11-2": ("C11", "unord_q sized work_units; needs a slow block followed by more than `workers` tiny blocks (queue overflow)", []),
 "C13-1": ("C13", "free()/NULL assignment swapped at end of block; leaks the retriever state per block", ["symbol_step_eob"]),
 "C13-2": ("C13", "-t shortcut in do_reorder() never frees output buffers; needs -t and a large expansion", ["reorder_checks"]),
 "C14-1": ("C14", "skip distance computed after the live bits were dumped; needs a resumed scan with skip > live and a header in the extra skipped word", ["scan_nw4"]),
 "C14-2": ("C14", "mini_dfa[10] accepts a second bit pattern; needs the corrupted pattern inside the buffered bits", ["dfa_mini", "dfa_big"]),
 "C15-1": ("C15", "stream CRC comparison skipped when the computed CRC is 0; needs an empty stream", ["parse_nw3_ecrc2", "parse_nw3_stream1"]),
 "C15-2": ("C15", "later stream header accepted only up to the previous level; needs BZh1 followed by BZh9", ["parse_nw3_stream2", "parse_nw3_ecrc2"]),
 "C16-1": ("C16", "sigsuspend mask captured before SIGPIPE/SIGXFSZ are blocked; needs EFBIG in the writer thread", ["main_compress", "main_decompress"]),
 "C16-2": ("C16", "input removed before the output is closed; needs close() of the output to fail", ["main_compress", "main_decompress"]),
 "C17-1": ("C17", "opathn set before open(O_EXCL); needs an existing output file and a failing stderr write", ["main_compress", "main_decompress"]),
 "C17-2": ("C17", "fchmod skipped for modes within 0600; needs a umask masking an owner bit", ["main_compress", "main_decompress"]),
 "C18-1": ("C18", "combined_crc reset moved to the first block of a stream; needs an empty operand after a non-empty one", ["stream_frame"]),
 "C18-2": ("C18", "warned flag overwritten by info-class messages; needs -v and a skipped operand followed by a processed one", ["main2_verbose_skip_first"]),
 "C19-1": ("C19", "eof not reset in copy() and finish signalled before the reader is joined; needs two operands and an interleaving", ["sniff"]),
 "C19-2": ("C19", "copy pipeline skipped for operands whose reported size is <= 4; needs a FIFO / device operand with -cdf", ["sniff"]),
 "C20-1": ("C20", "weight_add depth increment constant; needs package depths summing to >= 16 at a near-tie", []),
 "C20-2": ("C20", "sort_alphabet range off by one (EOB unsorted); needs a table whose last group is short", ["assign_opt_L3_A3", "assign_opt_L3_A4"]),
 "C21-1": ("C21", "read error after a partly filled buffer taken for end of input; needs a failing read() that is not the first of a buffer", ["xread_fill", "sniff"]),
 "C21-2": ("C21", "inherited blocked signals not cleared (main thread never woken); needs a parent that blocks SIGUSR1 and a sub-thread I/O failure", ["main_filter_compress", "main_filter_decompress", "main_filter_copy"]),
 "C22-1": ("C22", "environment tokenizer splits at every separator; needs doubled or leading separators in LBZIP2/BZIP2/BZIP", ["opts_env_x_names"]),
 "C22-2": ("C22", "invocation-name defaults applied after the options; needs bunzip2/bzcat with -z", ["opts_names_x_token", "opts_env_x_names"]),
}
for d in sorted(glob.glob("/verif/seeded/C*-*")):
    i = os.path.basename(d)
    if i not in T:
        print("no table entry for", i); continue
    prop, needs, caught = T[i]
    try:
        c = json.load(open(d + "/confirm.json"))
    except Exception:
        c = {}
    meta = {
        "id": i, "breaks_property": prop, "needs_to_manifest": needs,
        "origin": "independent sub-agent given only the property text and a scratch worktree of the pinned commit",
        "confirmed": {"how": "tools/confirm_seeded.sh: fresh worktree of /repo HEAD, patch applied, cmake build, whole pinned suite, demo.sh on changed and unchanged build",
                      "ctest_with_change": c.get("ctest"), "demo_exit_changed_build": c.get("demo_rc_changed"), "demo_exit_unchanged_build": c.get("demo_rc_unchanged")},
        "checked_with": "tools/try_mutant.sh seeded/%s/patch.diff <property> (scratch copy of /repo/src with the patch; /repo itself untouched)" % i,
        "caught_by": caught, "caught": bool(caught),
        "note": "" if caught else ("needs package depths >= 16: not reachable at the scaled bounds of C20" if prop == "C20" else "missed: the code it touches is listed as outside the claim in MANIFEST.json"),
    }
    json.dump(meta, open(d + "/meta.json", "w"), indent=1)
print("done")

#!/bin/bash
# usage: try_mutant.sh <patch.diff> <property> [check.py args...]
# Applies the patch to a scratch copy of /repo (never to /repo itself) and runs the property's check on it.
set -e
patch="$1"; prop="$2"; shift 2
d=$(mktemp -d /tmp/mut.XXXXXX)
mkdir -p $d/src && cp /repo/src/* $d/src/
(cd $d && patch -p1 --quiet < "$patch") || { echo "PATCH FAILED"; rm -rf $d; exit 3; }
cd /verif && VERIF_REPO=$d python3 check.py "$prop" "$@" 2>&1 | grep -v "^fatal" | grep -E "VIOLATION|violation|inconclusive|MACHINERY|quick:|thorough:" ; rc=${PIPESTATUS[0]}
rm -rf $d
exit 0

#!/bin/bash
# Regression of detection: for every confirmed seeded change that some obligation is recorded to catch
# (seeded/<id>/meta.json caught_by), re-run exactly those obligations on a scratch copy with the change applied
# (never on /repo).  Prints one line per change: CAUGHT / LOST.  Exit 1 if a recorded detection was lost.
cd /verif
rc=0
for m in seeded/*/meta.json; do
  id=$(python3 -c "import json;print(json.load(open('$m'))['id'])")
  prop=$(python3 -c "import json;print(json.load(open('$m'))['breaks_property'])")
  obs=$(python3 -c "import json;print(','.join(json.load(open('$m')).get('caught_by') or []))")
  [ -z "$obs" ] && { echo "$id MISSED (documented)"; continue; }
  out=$(timeout 3600 tools/try_mutant.sh /verif/seeded/$id/patch.diff $prop --tier thorough --only "$obs" 2>&1)
  if echo "$out" | grep -q "^VIOLATION property=$prop"; then echo "$id CAUGHT by $(echo "$out" | grep -c '  violation') of: $obs"; else echo "$id LOST: $obs"; echo "$out" | tail -5; rc=1; fi
done
rm -f /verif/replays/*.json 2>/dev/null
exit $rc

#!/bin/bash
# usage: confirm_seeded.sh <inbox dir, e.g. seeded_inbox/C04/1> <id, e.g. C04-1>
# Confirms a seeded change in a scratch worktree of /repo HEAD: applies, builds, runs the whole suite, runs the demo on
# the changed and on the unchanged build.  Writes seeded/<id>/{patch.diff,demo files,notes.md,confirm.json}.
in=/verif/$1; id=$2; wt=/tmp/cf/$id; out=/verif/seeded/$id
rm -rf $wt; mkdir -p /tmp/cf $out
git -C /repo worktree add --detach $wt HEAD >/dev/null 2>&1 || exit 3
cd $wt
if ! patch -p1 -s < $in/patch.diff; then echo "{\"id\":\"$id\",\"applied\":false}" > $out/confirm.json; git -C /repo worktree remove --force $wt; exit 0; fi
git diff -- src > $out/patch.diff
cp -r $in/* $out/ 2>/dev/null; git -C $wt diff -- src > $out/patch.diff
cmake -G Ninja -S $wt -B $wt/_build >/dev/null 2>&1 && cmake --build $wt/_build > $out/build.log 2>&1; brc=$?
ct=$(ctest --test-dir $wt/_build -j3 --timeout 900 2>&1 | grep "tests passed" | tail -1)
demo_mut=na; demo_base=na
if [ -f $out/demo.sh ]; then
  chmod +x $out/demo.sh
  (cd $out && LBZIP2_SRC=$wt/src timeout 900 ./demo.sh $wt/_build/lbzip2 $wt/src > demo_changed.log 2>&1); demo_mut=$?
  (cd $out && LBZIP2_SRC=/repo/src timeout 900 ./demo.sh /repo/_build/lbzip2 /repo/src > demo_unchanged.log 2>&1); demo_base=$?
  if [ "$demo_mut" = 2 ] && [ "$demo_base" = 2 ]; then   # demo takes the binary only
    (cd $out && timeout 900 ./demo.sh $wt/_build/lbzip2 > demo_changed.log 2>&1); demo_mut=$?
    (cd $out && timeout 900 ./demo.sh /repo/_build/lbzip2 > demo_unchanged.log 2>&1); demo_base=$?
  fi
fi
echo "{\"id\":\"$id\",\"applied\":true,\"build_rc\":$brc,\"ctest\":\"$ct\",\"demo_rc_changed\":\"$demo_mut\",\"demo_rc_unchanged\":\"$demo_base\"}" > $out/confirm.json
cat $out/confirm.json
rm -f $out/build.log
git -C /repo worktree remove --force $wt

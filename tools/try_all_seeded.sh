#!/bin/bash
# runs the relevant quick checks against every confirmed seeded change (scratch copy, never /repo) and prints one line per change
cd /verif
run() { id=$1; prop=$2; shift 2; echo "== $id ($prop $*)"; timeout 3000 tools/try_mutant.sh /verif/seeded/$id/patch.diff $prop "$@" | grep -E "VIOLATION|quick:|thorough:|inconclusive|MACHINERY|PATCH"; }
run C03-1 C03 --only stream_frame
run C04-1 C04
run C04-2 C04 --only memconstraints
run C14-1 C14 --tier thorough --only scan_nw4
run C14-2 C14 --only dfa_mini,dfa_big
run C15-1 C15
run C15-2 C15
run C11-2 C11
run C20-1 C01 --only mtf_n4
run C20-2 C01 --only mtf_n4

#!/usr/bin/env python3
"""Driver for the solver-based checks of kjn/lbzip2 (see DESIGN.md).

  check.py <Cxx> [--tier quick|thorough] [--only NAME[,NAME]] [--jobs N] [--keep]
  check.py --replay <file>
  check.py --list

Every run re-compiles the real sources under /repo/src from the working tree with goto-cc
(-DKJN_LBZIP2_VERIF and the scale defines an obligation names), runs cbmc on each registered
obligation of the property, runs the obligation's witness twin, replays any counterexample
against a native (gcc, ASan+UBSan) build of the same harness + real code, and rewrites
/verif/evidence/<id>.json.

Exit status: 0 = held on everything explored (inconclusive obligations are listed in the
evidence and never counted as held); 1 = a reproduced violation (VIOLATION line printed);
2 = machinery error (harness does not compile, vacuous harness, counterexample that does not
reproduce).
"""
import argparse
import concurrent.futures as cf
import hashlib
import json
import os
import re
import resource
import shutil
import signal
import subprocess
import sys
import tempfile
import threading
import time

VERIF = os.path.dirname(os.path.abspath(__file__))
REPO = os.environ.get("VERIF_REPO", "/repo")
SRC = os.path.join(REPO, "src")
HARN = os.path.join(VERIF, "harness")
sys.path.insert(0, VERIF)

BASE_DEFS = ["-D_XOPEN_SOURCE=700", "-D_FILE_OFFSET_BITS=64", '-DPACKAGE_NAME="lbzip2"',
             '-DPACKAGE_VERSION="devel"', "-DKJN_LBZIP2_VERIF"]
FUNC_FLAGS = ["--no-standard-checks", "--no-malloc-may-fail", "--slice-formula"]
UB_FLAGS = ["--no-malloc-may-fail", "--slice-formula"]  # CBMC 6 standard checks stay on

MEM_BUDGET_GB = int(os.environ.get("VERIF_MEM_GB", "48"))


class Ob:
    """One proof obligation = one harness entry point + bound + back end."""

    def __init__(self, name, harness, entry, props, defines=(), cbmc=(), backend="sat",
                 timeout=600, mem_gb=6, witness=True, ub=False, extra_src=(), functions=(),
                 bounds="", assumptions=(), outside=(), unwind_is_violation=False,
                 nowitness_reason="", object_bits=None, describe="", ignore_unwind=(), post=None, shrink=None, witness_mode="all", remove_bodies=(), witnesses=None, static_unwind=()):
        self.name = name
        self.harness = harness
        self.entry = entry
        self.props = dict(props)          # property id -> "quick" | "thorough"
        self.defines = list(defines)
        self.cbmc = list(cbmc)
        self.backend = backend            # sat | z3 | kissat | cadical
        self.timeout = timeout
        self.mem_gb = mem_gb
        self.witness = witness
        self.ub = ub                      # run with CBMC's standard UB checks instead of PROP only
        self.extra_src = list(extra_src)  # further /repo/src files compiled as own TUs
        self.functions = list(functions)
        self.bounds = bounds
        self.assumptions = list(assumptions)
        self.outside = list(outside)
        self.unwind_is_violation = unwind_is_violation
        self.nowitness_reason = nowitness_reason
        self.object_bits = object_bits
        self.describe = describe
        self.ignore_unwind = list(ignore_unwind)   # unwinding assertions justified by a lemma obligation instead
        self.post = post
        self.static_unwind = list(static_unwind)   # loops unwound statically by goto-instrument (with unwinding assertions) before cbmc
        self.witnesses = list(witnesses) if witnesses else None   # if given: exactly these WITNESS points must be reachable (others belong to other entry points)
        self.remove_bodies = list(remove_bodies)  # functions cut with goto-instrument --remove-function-body (CBMC build only)
        self.witness_mode = witness_mode  # all: every WITNESS point must be reachable; any: at least one (case-split obligations)
        self.shrink = shrink              # name of a textual array-shrink transformation (SHRINKS)


def load_obligations():
    import obligations
    return obligations.OBLIGATIONS


# --------------------------------------------------------------------------------------------
# process helpers

class MemGate:
    """Admit jobs while the sum of their declared memory limits fits the budget."""

    def __init__(self, budget):
        self.budget = budget
        self.used = 0
        self.cv = threading.Condition()

    def acquire(self, n):
        n = min(n, self.budget)
        with self.cv:
            while self.used + n > self.budget:
                self.cv.wait()
            self.used += n
        return n

    def release(self, n):
        with self.cv:
            self.used -= n
            self.cv.notify_all()


GATE = MemGate(MEM_BUDGET_GB)


def run(cmd, timeout, mem_gb, cwd=None, stdout_path=None, env=None):
    """Run cmd under an address-space limit and a wall-clock cap.  Returns (rc, out, secs, maxrss_kb);
    rc = 'timeout' on timeout."""
    def pre():
        os.setsid()
        if mem_gb:
            lim = int(mem_gb * (1 << 30))
            resource.setrlimit(resource.RLIMIT_AS, (lim, lim))
    t0 = time.time()
    out_f = open(stdout_path, "wb") if stdout_path else subprocess.PIPE
    rss_file = None
    if stdout_path:   # solver runs: measure peak RSS of exactly this child
        rss_file = stdout_path + ".rss"
        cmd = ["/usr/bin/time", "-f", "%M", "-o", rss_file] + cmd
    p = subprocess.Popen(cmd, stdout=out_f, stderr=subprocess.STDOUT if not stdout_path else subprocess.PIPE,
                         cwd=cwd, preexec_fn=pre, env=env)
    try:
        o, e = p.communicate(timeout=timeout)
        rc = p.returncode
    except subprocess.TimeoutExpired:
        try:
            os.killpg(p.pid, signal.SIGKILL)
        except ProcessLookupError:
            pass
        o, e = p.communicate()
        rc = "timeout"
    if stdout_path:
        out_f.close()
        o = e
    rss = 0
    if rss_file:
        try:
            rss = int(open(rss_file).read().split()[-1])
        except Exception:
            rss = 0
        try:
            os.unlink(rss_file)
        except OSError:
            pass
    return rc, (o or b"").decode("utf-8", "replace"), time.time() - t0, rss


# --------------------------------------------------------------------------------------------
# building and running one obligation

# Textual shrinking of scratch arrays the checked function never touches, so that the state object
# fits a SAT back end (DESIGN.md 2.2).  Applied to a scratch copy of the current /repo source on every
# run; every pattern must match exactly once or the run is a machinery error.
SHRINKS = {
    # only the union's other member and the selector lists: the code tables keep their production size
    "encoder_bucket": ("encode.c", [
        (r"int32_t bucket\[65536 \+ 256\];", "int32_t bucket[16];"),
        (r"uint8_t selector\[18000 \+ 1 \+ 1\];", "uint8_t selector[8];"),
        (r"uint8_t selectorMTF\[18000 \+ 1 \+ 7\];", "uint8_t selectorMTF[8];"),
        # CBMC 6.11 loses field updates of union members when a symbolic-index write into the union intervenes (observed:
        # tmap_old2new[] writes of generate_prefix_code() vanished -> false alarm).  The code under the harness never reads
        # one member after writing the other, so the union is turned into a struct for the solver build.
        (r"  union \{\n    struct \{\n      uint8_t selector", "  struct {\n    struct {\n      uint8_t selector"),
    ]),
    "encoder_scratch": ("encode.c", [
        (r"int32_t bucket\[65536 \+ 256\];", "int32_t bucket[16];"),
        (r"uint8_t selector\[18000 \+ 1 \+ 1\];", "uint8_t selector[8];"),
        (r"uint8_t selectorMTF\[18000 \+ 1 \+ 7\];", "uint8_t selectorMTF[8];"),
        (r"uint8_t length\[MAX_TREES\]\[MAX_ALPHA_SIZE \+ 1\];", "uint8_t length[1][4];"),
        (r"uint32_t code\[MAX_TREES\]\[MAX_ALPHA_SIZE \+ 1\];", "uint32_t code[1][4];"),
        (r"uint32_t frequency\[MAX_TREES\]\[MAX_ALPHA_SIZE \+ 1\];", "uint32_t frequency[1][4];"),
    ]),
}


def shrink_dir(ob, scratch):
    """Returns an include dir holding the transformed copy, or None.  Raises on pattern mismatch."""
    if not ob.shrink:
        return None
    fname, subs = SHRINKS[ob.shrink]
    d = os.path.join(scratch, "shrink-" + ob.shrink)
    dst = os.path.join(d, fname)
    if os.path.exists(dst):
        return d
    os.makedirs(d, exist_ok=True)
    txt = open(os.path.join(SRC, fname)).read()
    for pat, rep in subs:
        txt, n = re.subn(pat, rep, txt)
        if n != 1:
            raise RuntimeError("shrink %s: pattern %r matched %d times in %s (harness out of date)" % (ob.shrink, pat, n, fname))
    tmp = dst + ".tmp%d" % threading.get_ident()
    open(tmp, "w").write(txt)
    os.replace(tmp, dst)
    return d


def inc_flags(ob, scratch):
    d = shrink_dir(ob, scratch)
    return (["-I", d] if d else []) + ["-I", SRC, "-I", HARN]


def compile_goto(ob, scratch, witness):
    tag = ob.name + ("-w" if witness else "")
    out = os.path.join(scratch, tag + ".gb")
    cmd = ["goto-cc", "-std=gnu99"] + inc_flags(ob, scratch) + BASE_DEFS + ob.defines
    cmd += ['-DREPO_SRC="%s"' % SRC]
    if witness:
        cmd.append("-DWITNESS_BUILD")
    objs = []
    for ex in ob.extra_src:
        if isinstance(ex, (tuple, list)):      # (file, [flags]): separately compiled unit with its own flags
            f, fl = ex
            obj = os.path.join(scratch, tag + "-" + os.path.basename(f) + ".o")
            c2 = ["goto-cc", "-std=gnu99", "-c"] + inc_flags(ob, scratch) + BASE_DEFS + list(fl) + [os.path.join(SRC, f), "-o", obj]
            rc, o, secs, _ = run(c2, 300, 4, cwd=scratch)
            if rc != 0:
                return None, o
            objs.append(obj)
        else:
            objs.append(os.path.join(SRC, ex))
    cmd += [os.path.join(HARN, ob.harness)] + objs
    cmd += ["-o", out]
    rc, o, secs, _ = run(cmd, 300, 4, cwd=scratch)
    for ob_ in objs:
        if ob_.endswith(".o"):
            try:
                os.unlink(ob_)
            except OSError:
                pass
    if rc != 0:
        return None, o
    if ob.static_unwind:
        # CBMC's dynamic unwinding counters are per frame, not per path: for a backward goto that encloses other loops
        # (scan()'s `goto again`) later traversals would be cut silently.  Unwinding that loop statically gives every
        # traversal its own copy; the inserted unwinding assertion is then a normal proof obligation.
        out3 = out[:-3] + "-su.gb"
        rc, o3, _, _ = run(["goto-instrument", "--unwindset", ",".join(ob.static_unwind), "--unwinding-assertions", out, out3], 300, 4, cwd=scratch)
        if rc != 0 or not os.path.exists(out3):
            return None, o3
        os.replace(out3, out)
    if ob.remove_bodies:
        out2 = out[:-3] + "-cut.gb"
        cmd = ["goto-instrument"]
        for f in ob.remove_bodies:
            cmd += ["--remove-function-body", f]
        rc, o2, _, _ = run(cmd + [out, out2], 300, 4, cwd=scratch)
        if rc != 0 or not os.path.exists(out2):
            return None, o2
        os.replace(out2, out)
        # a call to a body-less function is an error in CBMC 6: give the cut functions "any return value, no effects"
        rc, o2, _, _ = run(["goto-instrument", "--generate-function-body", "|".join(ob.remove_bodies),
                            "--generate-function-body-options", "nondet-return", out, out2], 300, 4, cwd=scratch)
        if rc != 0 or not os.path.exists(out2):
            return None, o2
        os.replace(out2, out)
    return out, o


def cbmc_cmd(ob, gb):
    cmd = ["cbmc", gb, "--function", ob.entry, "--unwinding-assertions", "--drop-unused-functions",
           "--trace", "--json-ui", "--verbosity", "4"]
    cmd += UB_FLAGS if ob.ub else FUNC_FLAGS
    if ob.object_bits:
        cmd += ["--object-bits", str(ob.object_bits)]
    if ob.backend == "z3":
        cmd.append("--z3")
    elif ob.backend == "kissat":
        cmd += ["--external-sat-solver", "kissat"]
    elif ob.backend == "cadical":
        cmd += ["--sat-solver", "cadical"]
    cmd += ob.cbmc
    return cmd


def parse_cbmc(path):
    """Return (status, results, messages).  status in done|error."""
    try:
        with open(path, "rb") as f:
            txt = f.read().decode("utf-8", "replace")
        j = json.loads(txt)
    except Exception as e:  # truncated output (killed) etc.
        return "error", [], ["unparsable cbmc output: %s" % e]
    results, msgs, status = [], [], "error"
    for o in j:
        if not isinstance(o, dict):
            continue
        if "result" in o:
            results = o["result"]
        if "cProverStatus" in o:
            status = "done"
        if o.get("messageType") in ("ERROR",):
            msgs.append(o.get("messageText", ""))
    return status, results, msgs


def int_to_c(v):
    b = v.get("binary")
    t = v.get("type", "")
    if b is None:
        d = str(v.get("data"))
        return "1" if d == "TRUE" else "0" if d == "FALSE" else (re.sub(r"[a-zA-Z]+$", "", d) or "0")
    val = int(b, 2)
    signed = not (t.startswith("unsigned") or t.startswith("uint") or t in ("_Bool", "size_t", "__CPROVER_size_t", "char"))
    if signed and b[0] == "1" and len(b) > 1:
        val -= 1 << len(b)
    if val < 0:
        return "(-%dLL - 1)" % (-val - 1)
    return "%dULL" % val


def flatten(v, prefix, out):
    """Flatten a CBMC JSON trace value into {designator: C literal}."""
    n = v.get("name")
    if n == "struct":
        for m in v["members"]:
            if not m["name"].startswith("$pad"):
                flatten(m["value"], prefix + "." + m["name"], out)
    elif n == "array":
        for e in v["elements"]:
            flatten(e["value"], "%s[%d]" % (prefix, e["index"]), out)
    elif n in ("integer", "boolean"):
        out[prefix] = int_to_c(v)
    elif n in ("pointer", "union", "unknown"):
        pass
    else:
        raise ValueError("unhandled trace value kind %r" % n)


def extract_inputs(trace):
    """All leaves of the harness input struct IN, from the counterexample trace.  With
    --slice-formula only the fields the failing property depends on are assigned; the rest stay 0."""
    leaves = {}
    for st in trace:
        if st.get("stepType") != "assignment":
            continue
        lhs = st.get("lhs", "")
        if lhs != "IN" and not lhs.startswith("IN.") and not lhs.startswith("IN["):
            continue
        if "$pad" in lhs:
            continue
        des = re.sub(r"\[(\d+)[a-zA-Z]*\]", r"[\1]", lhs[2:])
        flatten(st.get("value", {}), des, leaves)
    return leaves or None


def leaves_to_c(leaves):
    return "{ " + ", ".join("%s = %s" % (k, v) for k, v in sorted(leaves.items())) + " }"


def native_replay(ob, in_c, scratch, tag):
    """Build the harness natively with the concrete inputs and run it.  Returns (verdict, output)."""
    d = os.path.join(scratch, "replay-" + tag)
    os.makedirs(d, exist_ok=True)
    with open(os.path.join(d, "replay_inputs.c"), "w") as f:
        f.write('#define REPLAY 1\n#define REPLAY_INPUTS_TU 1\n#include "%s"\nstruct inputs IN = %s;\n'
                % (os.path.join(HARN, ob.harness), in_c))
    exe = os.path.join(d, "replay")
    cmd = ["gcc", "-std=gnu99", "-O0", "-g", "-w", "-fsanitize=address,undefined", "-fno-sanitize-recover=undefined"
           ] + inc_flags(ob, scratch) + BASE_DEFS + ob.defines + ['-DREPO_SRC="%s"' % SRC, "-DREPLAY",
           "-DREPLAY_ENTRY=" + ob.entry, os.path.join(d, "replay_inputs.c")]
    common = ["gcc", "-std=gnu99", "-O0", "-g", "-w", "-fsanitize=address,undefined", "-fno-sanitize-recover=undefined"] + inc_flags(ob, scratch) + BASE_DEFS
    for ex in ob.extra_src:
        if isinstance(ex, (tuple, list)):
            f, fl = ex
            obj = os.path.join(d, os.path.basename(f) + ".o")
            rc, o, _, _ = run(common + list(fl) + ["-c", os.path.join(SRC, f), "-o", obj], 300, 8, cwd=d)
            if rc != 0:
                return "build-failed", o
            cmd.append(obj)
        else:
            cmd.append(os.path.join(SRC, ex))
    cmd += ["-o", exe, "-lpthread"]
    rc, o, _, _ = run(cmd, 300, 8, cwd=d)
    if rc != 0:
        return "build-failed", o
    env = dict(os.environ, ASAN_OPTIONS="detect_leaks=0:abort_on_error=0", UBSAN_OPTIONS="print_stacktrace=1")
    rc, o, _, _ = run([exe], 120, None, cwd=d, env=env)   # no address-space limit: ASan needs its shadow
    if rc == 0:
        return "not-reproduced", o
    if rc == 77:
        return "assume-failed", o
    if ("REPLAY-PROP-FAILED" in o or rc in (-6, 134) or "ERROR: AddressSanitizer: " in o or "runtime error:" in o
            or "Assertion" in o):
        return "reproduced", o
    return "replay-error", o


def classify(results):
    """Split CBMC property results."""
    fails = [r for r in results if r.get("status") == "FAILURE"]
    unwind = [r for r in fails if "unwinding assertion" in r.get("description", "")]
    wit = [r for r in results if r.get("description", "").startswith("WITNESS")]
    real = [r for r in fails if r not in unwind and not r.get("description", "").startswith("WITNESS")]
    return fails, unwind, wit, real


def run_twin(ob, scratch, box, keep_out=False):
    """Witness twin of an obligation: every WITNESS point must be FAILED (= reachable)."""
    got = GATE.acquire(ob.mem_gb)
    try:
        gbw, o = compile_goto(ob, scratch, True)
        if gbw is None:
            box.update(status="build-failed", note=o[-800:])
            return
        outw = os.path.join(scratch, ob.name + "-w.json")
        tcmd = cbmc_cmd(ob, gbw)
        if ob.backend == "z3":
            # the SMT back end needs one solver call per failing property; stop at the first reachable witness
            tcmd = [c for c in tcmd if c != "--trace"] + ["--stop-on-fail"]
        rc, err, secs, rss = run(tcmd, ob.timeout, ob.mem_gb, cwd=scratch, stdout_path=outw)
        box.update(secs=round(secs, 1), rss=rss, queries=1)
        if rc == "timeout":
            box.update(status="timeout", note="timed out after %ds" % ob.timeout)
            return
        status, results, msgs = parse_cbmc(outw)
        if status != "done":
            box.update(status="error", note="cbmc rc=%s %s" % (rc, err[-300:]))
            return
        if ob.backend == "z3":
            raw = open(outw, "rb").read().decode("utf-8", "replace")
            m = re.search(r'"cProverStatus":\s*"(\w+)"', raw)
            w = re.findall(r'WITNESS ([A-Za-z0-9_]+)', raw)
            if m and m.group(1) == "failure":
                box.update(status="ok", reach=[w[0] if w else "first_reachable_witness"], unreach=[], nwit=1, note="z3 twin stopped at the first reachable witness point")
            else:
                box.update(status="ok", reach=[], unreach=list(ob.witnesses or ["any"]), nwit=0)
            return
        _, _, wit, _ = classify(results)
        if ob.witnesses is not None:
            wit = [w for w in wit if w["description"][8:] in ob.witnesses]
        reach = [w["description"][8:] for w in wit if w.get("status") == "FAILURE"]
        # a witness name may be placed at several sites: one reachable site is enough
        unreach = [w["description"][8:] for w in wit if w.get("status") != "FAILURE" and w["description"][8:] not in reach]
        if ob.witnesses is not None:
            unreach += [n for n in ob.witnesses if n not in reach and n not in unreach]
        box.update(status="ok", reach=reach, unreach=unreach, nwit=len(wit))
    except Exception as e:
        box.update(status="error", note="driver exception %r" % e)
    finally:
        GATE.release(got)
        if not keep_out:
            for suf in ("-w.json", "-w.gb"):
                try:
                    os.unlink(os.path.join(scratch, ob.name + suf))
                except OSError:
                    pass


def run_obligation(ob, scratch, keep_out=False):
    rec = {"obligation": ob.name, "harness": ob.harness, "entry": ob.entry, "backend": ob.backend,
           "defines": ob.defines, "cbmc_args": ob.cbmc, "bounds": ob.bounds, "ub_checks": ob.ub,
           "functions_encoded": ob.functions, "verdict": None, "solver_s": 0.0, "peak_rss_kb": 0,
           "queries": 0, "witnesses_reachable": [], "notes": []}
    twin_box = {}
    twin_thread = threading.Thread(target=run_twin, args=(ob, scratch, twin_box, keep_out))
    if ob.witness:
        twin_thread.start()
    got = GATE.acquire(ob.mem_gb)
    try:
        gb, o = compile_goto(ob, scratch, False)
        if gb is None:
            rec["verdict"] = "machinery-error"
            rec["notes"].append("goto-cc failed (harness out of date?): " + o[-1500:])
            return rec
        outp = os.path.join(scratch, ob.name + ".json")
        rc, err, secs, rss = run(cbmc_cmd(ob, gb), ob.timeout, ob.mem_gb, cwd=scratch, stdout_path=outp)
        rec["solver_s"] += round(secs, 1)
        rec["peak_rss_kb"] = max(rec["peak_rss_kb"], rss)
        rec["queries"] += 1
        if rc == "timeout":
            rec["verdict"] = "inconclusive"
            rec["notes"].append("timeout after %ds" % ob.timeout)
            return rec
        status, results, msgs = parse_cbmc(outp)
        if status != "done" or rc not in (0, 10):
            rec["verdict"] = "inconclusive" if rc in (-9, -6, 137, 134, 6) or "bad_alloc" in err or "emory" in err else "machinery-error"
            rec["notes"].append("cbmc rc=%s %s %s" % (rc, " | ".join(msgs)[-800:], err[-400:]))
            return rec
        fails, unwind, _, real = classify(results)
        ign = [u for u in unwind if u.get("property") in ob.ignore_unwind]
        if ign:
            rec["notes"].append("unwinding assertion(s) %s not used; justified by lemma (see obligation bounds)" % [u["property"] for u in ign])
        unwind = [u for u in unwind if u not in ign]
        rec["properties_checked"] = len(results)
        rec["sample_properties"] = [r.get("description", "") for r in results if r.get("description", "").startswith("PROP")][:6]
        if real or (unwind and ob.unwind_is_violation):
            bad = (real or unwind)[0]
            rec["failed_property"] = bad.get("description")
            rec["failed_location"] = bad.get("sourceLocation", {})
            val = extract_inputs(bad.get("trace", []))
            if val is None:
                rec["verdict"] = "unconfirmed"
                rec["notes"].append("counterexample without IN assignment")
                return rec
            in_c = leaves_to_c(val)
            rec["counterexample"] = {"IN" + k: v for k, v in list(val.items())[:400]}
            rec["counterexample_c"] = in_c
            v, o = native_replay(ob, in_c, scratch, ob.name)
            rec["replay_verdict"] = v
            rec["replay_output"] = o[-1500:]
            rec["verdict"] = "violation" if v == "reproduced" else "unconfirmed"
            return rec
        if unwind:
            rec["verdict"] = "inconclusive"
            rec["notes"].append("unwinding assertion failed (bound too small for this tree): " +
                                "; ".join(sorted({u.get("property", "") for u in unwind}))[:300])
            return rec
        rec["verdict"] = "holds"
        # witness twin (started concurrently with the main query, joined here; the main query's memory
        # reservation is given back first, otherwise twins waiting for the gate would deadlock with mains waiting for twins)
        if ob.witness:
            GATE.release(got)
            got = 0
            twin_thread.join()
            tw = twin_box
            rec["solver_s"] += tw.get("secs", 0)
            rec["peak_rss_kb"] = max(rec["peak_rss_kb"], tw.get("rss", 0))
            rec["queries"] += tw.get("queries", 0)
            if tw.get("status") == "build-failed":
                rec["verdict"] = "machinery-error"
                rec["notes"].append("witness build failed: " + tw.get("note", ""))
                return rec
            if tw.get("status") != "ok":
                rec["notes"].append("witness twin: " + tw.get("note", "no result") + "; reachability not confirmed")
                rec["verdict"] = "inconclusive"
                return rec
            reach, unreach, nwit = tw["reach"], tw["unreach"], tw["nwit"]
            rec["witnesses_reachable"] = sorted(set(reach))
            if unreach and ob.witness_mode == "any" and reach:
                rec["notes"].append("witness points outside this case-split class: %d" % len(set(unreach)))
            elif unreach or not nwit:
                rec["verdict"] = "vacuous"
                rec["notes"].append("witness point(s) not reachable: %s" % sorted(set(unreach)))
        else:
            rec["notes"].append("no witness twin: " + (ob.nowitness_reason or "n/a"))
        return rec
    finally:
        if got:
            GATE.release(got)
        if ob.witness:
            if twin_thread.is_alive():
                twin_thread.join()
            if not rec.get("witnesses_reachable") and twin_box.get("status") == "ok":
                rec["witnesses_reachable"] = sorted(set(twin_box.get("reach", [])))   # recorded also when the main query did not hold
        if not keep_out:
            for suf in (".json", ".gb"):
                try:
                    os.unlink(os.path.join(scratch, ob.name + suf))
                except OSError:
                    pass


# --------------------------------------------------------------------------------------------
# known findings

def load_known():
    p = os.path.join(VERIF, "known_findings.json")
    if not os.path.exists(p):
        return []
    return json.load(open(p)).get("findings", [])


def match_known(prop, rec, known):
    for k in known:
        if k.get("status") != "open" or k.get("property") != prop or k.get("obligation") != rec["obligation"]:
            continue
        return k
    return None


# --------------------------------------------------------------------------------------------

def git_rev(path):
    try:
        return subprocess.check_output(["git", "-C", path, "rev-parse", "--short", "HEAD"], text=True).strip()
    except Exception:
        return "?"


def tree_dirty(path):
    try:
        return bool(subprocess.check_output(["git", "-C", path, "status", "--porcelain", "--", "src"], text=True).strip())
    except Exception:
        return False


def do_check(prop, tier, only, jobs, keep):
    t0 = time.time()
    if prop == "ALL":      # every registered obligation once (maintenance: validates both tiers without re-running shared obligations per property)
        obs = [o for o in load_obligations() if tier == "thorough" or "quick" in o.props.values()]
        if os.environ.get("VERIF_ONLY_THOROUGH"):
            obs = [o for o in obs if "quick" not in o.props.values()]
    else:
        obs = [o for o in load_obligations() if prop in o.props]
        if tier == "quick":
            obs = [o for o in obs if o.props[prop] == "quick"]
    if only:
        obs = [o for o in obs if o.name in only]
    if not obs:
        print("no obligations registered for %s (%s)" % (prop, tier))
        return 2
    known = load_known()
    scratch = tempfile.mkdtemp(prefix="lbzip2-verif.")
    recs = []
    try:
        # known-finding obligations are split into "only the known region" / "everything else"
        work = []
        for ob in obs:
            ks = [k for k in known if k.get("status") == "open" and k.get("property") == prop and k.get("obligation") == ob.name]
            if ks:
                import copy
                ex = copy.copy(ob)
                ex.name = ob.name + "+excl"
                ex.defines = ob.defines + ["-D" + k["exclude_define"] for k in ks]
                work.append((ex, None))
                for k in ks:
                    on = copy.copy(ob)
                    on.name = ob.name + "+only-" + k["key"]
                    on.defines = ob.defines + ["-D" + k["only_define"]]
                    on.witness = False
                    work.append((on, k))
            else:
                work.append((ob, None))
        with cf.ThreadPoolExecutor(max_workers=jobs) as ex:
            futs = {ex.submit(run_obligation, ob, scratch, keep): (ob, k) for ob, k in work}
            for f in cf.as_completed(futs):
                ob, k = futs[f]
                try:
                    rec = f.result()
                except Exception as e:  # never let a driver bug look like a pass
                    rec = {"obligation": ob.name, "verdict": "machinery-error", "notes": ["driver exception %r" % e],
                           "solver_s": 0, "peak_rss_kb": 0, "queries": 0, "witnesses_reachable": []}
                rec["_known"] = k
                rec["assumptions"] = ob.assumptions
                rec["outside_claim"] = ob.outside
                recs.append(rec)
                print("  [%s] %-28s %-14s %6.1fs rss=%dMB %s" % (prop, rec["obligation"], rec["verdict"], rec["solver_s"],
                                                           rec["peak_rss_kb"] // 1024, "; ".join(rec["notes"])[:200]), flush=True)
    finally:
        if keep:
            print("scratch kept at", scratch)
        else:
            shutil.rmtree(scratch, ignore_errors=True)

    rc = 0
    violations = 0
    os.makedirs(os.path.join(VERIF, "replays"), exist_ok=True)
    for rec in sorted(recs, key=lambda r: r["obligation"]):
        k = rec.pop("_known")
        v = rec["verdict"]
        if k is not None:  # the "only known region" twin
            if v == "violation":
                print("KNOWN-FINDING: property=%s %s" % (prop, k["what"]))
                rec["verdict"] = "known-finding"
            elif v == "holds":
                rec["notes"].append("known finding %s no longer reproduces on this tree" % k["key"])
            continue
        if v == "violation":
            violations += 1
            h = hashlib.sha1((rec["obligation"] + rec.get("counterexample_c", "")).encode()).hexdigest()[:10]
            path = os.path.join(VERIF, "replays", "%s-%s-%s.json" % (prop, rec["obligation"].replace("+", "_"), h))
            ob = [o for o in load_obligations() if o.name == rec["obligation"].split("+")[0]][0]
            json.dump({"property": prop, "obligation": rec["obligation"], "harness": ob.harness, "entry": ob.entry,
                       "defines": rec["defines"], "extra_src": ob.extra_src, "shrink": ob.shrink, "inputs_c": rec["counterexample_c"],
                       "inputs": rec.get("counterexample"), "failed_property": rec.get("failed_property"),
                       "failed_location": rec.get("failed_location"), "replay_output": rec.get("replay_output"),
                       "repo_rev": git_rev(REPO), "repo_src_dirty": tree_dirty(REPO)}, open(path, "w"), indent=1)
            print("VIOLATION property=%s replay=%s" % (prop, path))
            print("    obligation=%s failed=%r" % (rec["obligation"], rec.get("failed_property")))
            rc = 1
        elif v in ("machinery-error", "vacuous", "unconfirmed"):
            if rc == 0:
                rc = 2
            print("MACHINERY: %s %s: %s" % (rec["obligation"], v, "; ".join(rec["notes"])[:600]))
            if v == "unconfirmed":
                print("UNCONFIRMED counterexample for %s (%s): replay=%s" % (rec["obligation"], rec.get("failed_property"),
                                                                           rec.get("replay_verdict")))
    write_evidence(prop, tier, recs, time.time() - t0, violations)
    held = [r for r in recs if r["verdict"] == "holds"]
    inconc = [r for r in recs if r["verdict"] == "inconclusive"]
    print("%s %s: %d obligations, %d hold, %d inconclusive, %d violations, %.0fs" %
          (prop, tier, len(recs), len(held), len(inconc), violations, time.time() - t0))
    return rc


def write_evidence(prop, tier, recs, wall, violations):
    held = [r for r in recs if r["verdict"] == "holds"]
    wit = sorted({(r["obligation"], w) for r in recs for w in r.get("witnesses_reachable", [])})
    samples = []
    for r in sorted(recs, key=lambda r: r["obligation"]):
        s = {k: r.get(k) for k in ("obligation", "harness", "entry", "bounds", "backend", "defines", "cbmc_args", "verdict",
                                   "solver_s", "peak_rss_kb", "queries", "properties_checked", "sample_properties",
                                   "witnesses_reachable", "functions_encoded", "ub_checks", "notes")}
        if r.get("counterexample"):
            s["counterexample"] = r["counterexample"]
            s["failed_property"] = r.get("failed_property")
            s["replay_verdict"] = r.get("replay_verdict")
        samples.append(s)
    assumptions = sorted({a for r in recs for a in r.get("assumptions", [])})
    outside = sorted({a for r in recs for a in r.get("outside_claim", [])})
    ev = {
        "property_id": prop, "tier": tier, "seed": int(os.environ.get("VERIF_SEED", "0") or 0),
        "level": "model_checking",
        "coverage": {
            "evaluations": sum(r.get("queries", 0) for r in recs),
            "distinct_nontrivial": len(wit),
            "rule": "one evaluation = one cbmc solver query (obligation or its witness twin) over the real code compiled by "
                    "goto-cc from /repo/src on this run; all symbolic inputs inside the stated bound are covered by each query. "
                    "distinct_nontrivial = number of distinct witness points (assert(0) placed behind the interesting branch of a "
                    "harness) that the twin query proved reachable, i.e. harness paths shown non-vacuous.",
            "samples": samples,
            "obligations": len(recs),
            "discharged": len(held),
            "inconclusive": [r["obligation"] for r in recs if r["verdict"] == "inconclusive"],
            "functions_encoded": sorted({f for r in recs for f in r.get("functions_encoded", [])}),
            "solver_s": round(sum(r.get("solver_s", 0) for r in recs), 1),
            "peak_rss_kb": max([r.get("peak_rss_kb", 0) for r in recs] or [0]),
            "outside_claim": outside,
            "repo_rev": git_rev(REPO), "repo_src_dirty": tree_dirty(REPO),
            "tools": "cbmc 6.11.0 (goto-cc, minisat/kissat/z3 back ends as named per obligation)",
            "exhaustive": False,
        },
        "assumptions": assumptions,
        "wall_s": round(wall, 1),
        "violations": violations,
    }
    # runs against a scratch copy (VERIF_REPO set by tools/try_mutant.sh) or partial runs (--only) must not replace the
    # evidence of the registered command
    evdir = os.path.join(VERIF, "evidence") if (REPO == "/repo" and not os.environ.get("VERIF_PARTIAL")) else "/tmp/verif-evidence-scratch"
    os.makedirs(evdir, exist_ok=True)
    json.dump(ev, open(os.path.join(evdir, prop + ".json"), "w"), indent=1)


def do_replay(path):
    j = json.load(open(path))
    ob = Ob(j["obligation"].replace("+", "_"), j["harness"], j["entry"], {}, defines=j["defines"], extra_src=j.get("extra_src", []),
            shrink=j.get("shrink"))
    scratch = tempfile.mkdtemp(prefix="lbzip2-verif.")
    try:
        v, o = native_replay(ob, j["inputs_c"], scratch, "r")
        print(o)
        print("replay verdict:", v, "(property %s, failed %r)" % (j["property"], j.get("failed_property")))
        return 1 if v == "reproduced" else 0
    finally:
        shutil.rmtree(scratch, ignore_errors=True)


def do_replay_smoke(jobs):
    """Build (not run) the native replay of every registered obligation with all-zero inputs: a replay that does not
    link would turn a real counterexample into UNCONFIRMED."""
    obs = load_obligations()
    seen, todo = set(), []
    for o in obs:
        key = (o.harness, o.entry, tuple(o.defines), str(o.extra_src), o.shrink)
        if key not in seen:
            seen.add(key)
            todo.append(o)
    scratch = tempfile.mkdtemp(prefix="lbzip2-verif.")
    bad = 0
    try:
        with cf.ThreadPoolExecutor(max_workers=jobs) as ex:
            futs = {ex.submit(native_replay, o, "{ 0 }", scratch, "smoke-" + o.name): o for o in todo}
            for f in cf.as_completed(futs):
                o = futs[f]
                v, out = f.result()
                if v in ("build-failed", "replay-error"):
                    bad += 1
                    print("REPLAY-BUILD-FAILED %s: %s" % (o.name, out[-400:]))
    finally:
        shutil.rmtree(scratch, ignore_errors=True)
    print("replay smoke: %d harness builds, %d failed" % (len(todo), bad))
    return 1 if bad else 0


def main():
    ap = argparse.ArgumentParser()
    ap.add_argument("prop", nargs="?")
    ap.add_argument("--tier", default=os.environ.get("VERIF_TIER", "quick"), choices=["quick", "thorough"])
    ap.add_argument("--only", default="")
    ap.add_argument("--jobs", type=int, default=int(os.environ.get("VERIF_JOBS", "14")))
    ap.add_argument("--keep", action="store_true")
    ap.add_argument("--replay")
    ap.add_argument("--list", action="store_true")
    ap.add_argument("--replay-smoke", action="store_true")
    a = ap.parse_args()
    if a.replay:
        sys.exit(do_replay(a.replay))
    if a.replay_smoke:
        sys.exit(do_replay_smoke(a.jobs))
    if a.list:
        for o in load_obligations():
            print("%-30s %-22s %s" % (o.name, o.harness, o.props))
        sys.exit(0)
    if not a.prop:
        ap.error("property id required")
    if a.only or a.prop == "ALL":
        os.environ["VERIF_PARTIAL"] = "1"
    sys.exit(do_check(a.prop, a.tier, set(x for x in a.only.split(",") if x), a.jobs, a.keep))


if __name__ == "__main__":
    main()

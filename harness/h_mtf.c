/* C01 / C02: move-to-front + zero-run coding of the encoder, src/encode.c do_mtf() and make_map_e().
 *
 * h_mtf: for every block-sorted column of 1..NB bytes over an alphabet of up to 3 byte values (which values
 *   are in use is symbolic too): the symbol sequence written by the real do_mtf() equals the reference
 *   (move-to-front positions, runs of position 0 in bijective base 2 with RUN-A/RUN-B, end-of-block last),
 *   the symbol frequencies are the counts of that sequence, and nmtf <= nblock + 1 (what sizes the selector
 *   arrays, C02).
 */
#include "verif.h"
#include "encode.c"            /* the real /repo/src/encode.c */

#ifndef NB
#define NB 5
#endif

struct inputs { unsigned n; unsigned col[NB]; unsigned used[3]; unsigned base; };
DECLARE_INPUTS

int32_t divbwt(uint8_t *T, int32_t *SA, int32_t *bucket, int32_t n) { (void)T; (void)SA; (void)bucket; (void)n; return 0; }

void h_mtf(void)
{
  LOAD_INPUTS();
  static int32_t bwt[NB + GROUP_SIZE];
  static uint32_t freq[MAX_ALPHA_SIZE + 1];
  bool inuse[256];
  uint8_t cmap[256];
  unsigned n = IN.n, i, k, nin, vals[3];
  ASSUME(n >= 1 && n <= NB);
  /* three candidate byte values 7, 8, 200; each may be in use or not, every column byte is a used one */
  vals[0] = 7; vals[1] = 8; vals[2] = 200;    /* concrete byte values (the code only compares and maps them) */
  for (i = 0; i < 256; i++) inuse[i] = false;
  for (k = 0; k < 3; k++) if (IN.used[k] & 1) inuse[vals[k]] = true;
  for (i = 0; i < NB; i++) { ASSUME(IN.col[i] < 3 && (IN.used[IN.col[i]] & 1)); bwt[i] = (int32_t)vals[IN.col[i]]; }

  nin = make_map_e(cmap, inuse);
  unsigned want_nin = (IN.used[0] & 1) + (IN.used[1] & 1) + (IN.used[2] & 1);
  PROP(nin == want_nin, "number of byte values in use");
  unsigned EOB = nin + 1;

  /* reference: list of used values in increasing order, MTF position of each column byte, zero runs in bijective base 2 */
  unsigned list[3], ln = 0, want[2 * NB + 2], wn = 0, wfreq[6] = { 0, 0, 0, 0, 0, 0 }, zrun = 0;
  for (k = 0; k < 3; k++) if (IN.used[k] & 1) list[ln++] = k;
  for (i = 0; i < NB; i++) if (i < n) {
    unsigned c = IN.col[i], pos = 0, t;
    for (t = 0; t < 3; t++) if (t < ln && list[t] == c) pos = t;
    for (t = 2; t > 0; t--) if (t <= pos) list[t] = list[t - 1];
    list[0] = c;
    if (pos == 0) { zrun++; continue; }
    while (zrun) { want[wn++] = (zrun - 1) & 1; zrun = (zrun - 1) >> 1; }
    want[wn++] = pos + 1;
  }
  while (zrun) { want[wn++] = (zrun - 1) & 1; zrun = (zrun - 1) >> 1; }
  want[wn++] = EOB;
  for (i = 0; i < 2 * NB + 2; i++) if (i < wn && want[i] < 6) wfreq[want[i]]++;

  uint32_t nmtf = do_mtf(bwt, freq, cmap, (int32_t)n, (int32_t)EOB);

  if (wn < n) WITNESS("zero_runs_shorten_the_sequence");
  if (nin == 3 && n == NB) WITNESS("three_values_full_length");
  PROP(nmtf == wn, "number of MTF/zero-run symbols equals the reference");
  PROP(nmtf <= n + 1, "at most one symbol per block byte plus end-of-block (sizes the selector arrays, C02)");
  { const uint16_t *mtfv = (const void *)bwt;
    for (i = 0; i < 2 * NB + 2; i++) PROP(i >= wn || mtfv[i] == want[i], "MTF / zero-run symbol sequence equals the reference; end-of-block is last"); }
  for (k = 0; k < 6; k++) PROP(k > EOB || freq[k] == wfreq[k], "symbol frequencies count the written sequence");
}

HARNESS_MAIN(REPLAY_ENTRY)

/* C01 / C06: inverse Burrows-Wheeler transform, src/decode.c decode().
 *
 * h_ibwt: for EVERY string S of length 1..NB over a small alphabet: the harness computes the block-sorting
 *   transform of S by its definition (last column of the lexicographically sorted cyclic rotations, primary
 *   index = row of S itself), hands column + index + byte counts to the real decode() exactly as retrieve()
 *   leaves them, walks the produced list the way emit() does and must read S back.  Both the normal path and
 *   the legacy "randomised" path (a no-op for blocks below 618 bytes, but separate code) are checked.
 */
#include "verif.h"
#include "decode.c"            /* the real /repo/src/decode.c */

#ifndef NB
#define NB 4
#endif
#ifndef VMAX
#define VMAX 3
#endif

struct inputs { unsigned n; unsigned s[NB]; unsigned rand; };
DECLARE_INPUTS

void *xmalloc(size_t n) { void *p = malloc(n); ASSUME(p != 0); return p; }

static int rot_less(const unsigned *s, unsigned n, unsigned a, unsigned b)   /* rotation a < rotation b ? (ties: by start index) */
{
  unsigned k;
  for (k = 0; k < NB; k++) if (k < n) {
    unsigned x = s[(a + k) % n], y = s[(b + k) % n];
    if (x != y) return x < y;
  }
  return a < b;
}

void h_ibwt(void)
{
  LOAD_INPUTS();
  static uint32_t tt[NB];
  struct decoder_state ds;
  unsigned n = IN.n, i, j, rank[NB], col[NB], idx = 0;
  ASSUME(n >= 1 && n <= NB);
  for (i = 0; i < NB; i++) ASSUME(IN.s[i] <= VMAX);
  /* block-sorting transform by definition: rank of each rotation, last column in rank order */
  for (i = 0; i < NB; i++) if (i < n) {
    unsigned r = 0;
    for (j = 0; j < NB; j++) if (j < n && j != i && rot_less(IN.s, n, j, i)) r++;
    rank[i] = r;
  }
  for (i = 0; i < NB; i++) if (i < n) { col[rank[i]] = IN.s[(i + n - 1) % n]; if (i == 0) idx = rank[0]; }

  memset(&ds, 0, sizeof ds);
  ds.tt = tt; ds.block_size = n; ds.bwt_idx = idx; ds.rand = IN.rand & 1;
  for (i = 0; i < NB; i++) if (i < n) { tt[i] = col[i]; ds.ftab[col[i]]++; }

  decode(&ds);

  if (ds.rand) WITNESS("randomised_path"); else WITNESS("normal_path");
  if (n == NB) WITNESS("full_length");
  PROP(ds.rle_state == 0 && ds.rle_avail == n && ds.rle_crc == 0xFFFFFFFFu, "decode() leaves the run-length decoder in its start state");
  {
    uint32_t p = ds.rle_index;
    for (i = 0; i < NB; i++) if (i < n) {
      PROP((p >> 8) < n, "list links stay inside the block");
      p = tt[(p >> 8) < NB ? (p >> 8) : 0];
      PROP((p & 0xFF) == IN.s[i], "walking the list from the primary index reads the original block back (inverse BWT)");
    }
  }
}

HARNESS_MAIN(REPLAY_ENTRY)

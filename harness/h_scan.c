/* C14: block-header scanner.  Real code: src/parse.c scan(), src/scantab.h mini_dfa/big_dfa.
 *
 *  h_mini_dfa : for every state s<48 and bit b, mini_dfa[s][b] == KMP spec
 *               (= length of the longest prefix of the 48-bit pattern that is a suffix of
 *               pattern[0..s) followed by b).
 *  h_big_dfa  : for every state s<=48 and byte, big_dfa[s][byte] == 8 mini steps, MSB first,
 *               state 48 absorbing.
 *  h_scan     : scan() on a symbolic bit stream (<=32 live bits + NW words) and symbolic skip
 *               against a sliding-window reference.
 */
#include "verif.h"
#include "parse.c"            /* the real /repo/src/parse.c (via -I /repo/src) */

#ifndef NW
#define NW 2
#endif

struct inputs {
  unsigned state;
  unsigned bit;
  unsigned byte;
  uint64_t buff;
  unsigned live;
  unsigned skip;
  unsigned nwords;
  uint32_t words[NW + 1];
};
DECLARE_INPUTS

static const uint64_t PATTERN = 0x314159265359ull;    /* the format's constant, restated */

static unsigned pat_bit(unsigned i)   /* i-th bit of the 48-bit pattern, MSB first */
{
  return (unsigned)((PATTERN >> (47u - i)) & 1u);
}

/* KMP specification: next matched-prefix length.  The candidate string is pattern[0..s) ++ b
   (length s+1), kept in the low bits of c; the result is the largest k <= min(s+1,48) such that
   the first k pattern bits equal the last k candidate bits. */
static unsigned spec_step(unsigned s, unsigned b)
{
  uint64_t c = (s == 0 ? 0 : (PATTERN >> (48u - s)) << 1) | b;
  unsigned k;
  for (k = 48; k > 0; k--) {
    uint64_t mask = (k == 64 ? ~0ull : ((1ull << k) - 1));
    if (k <= s + 1 && (c & mask) == (PATTERN >> (48u - k)))
      return k;
  }
  return 0;
}

void h_mini_dfa(void)
{
  LOAD_INPUTS();
  unsigned s = IN.state, b = IN.bit;
  ASSUME(s < 48 && b < 2);
  unsigned want = spec_step(s, b);
  if (want == 48) WITNESS("mini_accept");
  if (want == 0) WITNESS("mini_reset");
  if (want > 1 && want <= s) WITNESS("mini_fallback");
  PROP(ACCEPT == 48, "ACCEPT is state 48");
  PROP(mini_dfa[s][b] == want, "mini_dfa transition equals KMP specification");
}

void h_big_dfa(void)
{
  LOAD_INPUTS();
  unsigned s = IN.state, by = IN.byte, i;
  ASSUME(s <= 48 && by < 256);
  unsigned t = s;
  for (i = 0; i < 8; i++) {
    unsigned b = (by >> (7 - i)) & 1u;
    if (t != 48) t = mini_dfa[t][b];
  }
  if (t == 48 && s != 48) WITNESS("big_accept_inside_byte");
  if (t != 48) WITNESS("big_plain");
  PROP(big_dfa[s][by] == t, "big_dfa equals eight mini_dfa steps with absorbing accept");
}

/* ---- scan() ---- */

static unsigned total_bits;
/* The whole stream (live bits, then the words) left-justified in 64-bit chunks, so that the
   reference can test "pattern at bit s" for a constant s with constant shifts only. */
#define NCHUNK ((32 + 32 * (NW + 1)) / 64 + 2)
static uint64_t chunk[NCHUNK];

static void build_stream(void)
{
  uint64_t W[NCHUNK];
  unsigned k;
  for (k = 0; k < NCHUNK; k++) {
    uint64_t hi = (2 * k < NW + 1) ? IN.words[2 * k] : 0;
    uint64_t lo = (2 * k + 1 < NW + 1) ? IN.words[2 * k + 1] : 0;
    W[k] = (hi << 32) | lo;
  }
  unsigned l = IN.live;   /* 0..32 */
  for (k = 0; k < NCHUNK; k++) {
    uint64_t prev = (k == 0) ? 0 : W[k - 1];
    chunk[k] = (W[k] >> l) | (l == 0 ? 0 : prev << (64u - l));
  }
  chunk[0] |= IN.buff;
}

static bool occ_at(unsigned s)       /* s is a constant at every call site */
{
  unsigned k = s / 64u, o = s % 64u;
  uint64_t win = (o == 0) ? chunk[k] : ((chunk[k] << o) | (chunk[k + 1] >> (64u - o)));
  return s + 80u <= total_bits && (win >> 16) == PATTERN;
}

void h_scan(void)
{
  LOAD_INPUTS();
  uint32_t data[NW + 1];
  struct bitstream bs;
  unsigned i, n = IN.nwords;
  ASSUME(n <= NW);
  ASSUME(IN.live <= 32);
  /* representation invariant of struct bitstream: bits below the live ones are zero */
  ASSUME((IN.buff << IN.live) == 0);
  ASSUME(IN.skip <= 32u * (NW + 2));
  for (i = 0; i < NW + 1; i++) data[i] = htonl(IN.words[i]);
  bs.live = IN.live; bs.buff = IN.buff; bs.block = 0; bs.eof = false;
  bs.data = data; bs.limit = data + n;
  total_bits = IN.live + 32u * n;
  for (i = n; i < NW + 1; i++) ASSUME(IN.words[i] == 0);   /* words beyond the block are not part of the stream */
  build_stream();

  /* the furthest point scanning may start from: skip rounded up to a word boundary (or nothing
     skipped when the skip lies inside the live bits) */
  unsigned start_max = 0;
  if (IN.skip > IN.live) {
    unsigned w = (IN.skip - IN.live + 31u) / 32u;
    if (w > n) w = n;
    start_max = IN.live + 32u * w;
  }

  int rv = scan(&bs, IN.skip);

  unsigned pos = total_bits - (bs.live + 32u * (unsigned)(bs.limit - bs.data));   /* bits consumed */
  PROP(rv == OK || rv == MORE, "scan returns OK or MORE");
  PROP(bs.data >= data && bs.data <= data + n && bs.live <= 63, "bitstream stays inside the block");
  if (rv == OK) {
    WITNESS("scan_found");
    if (IN.skip > IN.live) WITNESS("scan_found_after_skip");
    if (IN.live > 0 && pos - 80 < IN.live && pos > IN.live + 32) WITNESS("scan_found_straddling_live_and_words");
    PROP(pos >= 80 && pos <= total_bits, "reported end position lies inside the stream");
    /* no earlier complete occurrence at/after the furthest allowed starting point was skipped */
    unsigned s;
    bool here = false, missed = false;
    for (s = 0; s + 80 <= 32u + 32u * NW; s++) {
      if (s + 80 == pos && occ_at(s)) here = true;
      if (s >= start_max && s + 80 < pos && occ_at(s)) missed = true;
    }
    PROP(here, "candidate reported exactly 32 bits after a real 48-bit pattern");
    PROP(!missed, "no complete earlier occurrence was missed");
  } else if (rv == MORE) {
    WITNESS("scan_more");
    unsigned s;
    bool missed = false;
    for (s = 0; s + 80 <= 32u + 32u * NW; s++)
      if (s >= start_max && occ_at(s)) missed = true;
    PROP(!missed, "MORE only when no complete occurrence exists after the skip point");
  }
}

HARNESS_MAIN(REPLAY_ENTRY)

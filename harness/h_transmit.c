/* C02 / C01: bit-level emission of one block, src/encode.c transmit(), read back by an independent strict inspector.
 *
 * The encoder state handed to transmit() is arbitrary within the representation invariant its producers establish
 * (encode(), generate_prefix_code()): 2..6 tables, lengths 1..20, sentinel symbol costs no bits, tree_pad 0..3, the
 * expected size is the sum of the field widths and is a whole number of bytes.  The inspector below is written from
 * the bzip2 format, not from transmit(): it walks the output bit by bit (position symbolic) and checks
 *   block magic, stored CRC, randomisation flag 0, primary index field, the two-level symbol map, table count,
 *   selector count and the unary selectors, for every table a 5-bit start length in 1..20 and a delta code whose
 *   running value stays in 1..20 and arrives at the table's length for every symbol, then the symbols' codes, and
 *   that the block ends on the byte the state announced, with zero padding after it.
 *
 * To keep the position arithmetic tractable the three variable-length regions are made symbolic one at a time
 * (PART): 1 = symbol map + selectors, 2 = table lengths (delta code, tree_pad), 3 = symbol codes.
 */
#include "verif.h"
#include "encode.c"            /* the real /repo/src/encode.c */

#ifndef PART
#define PART 1
#endif
#ifndef NM
#define NM 3                   /* MTF symbols incl. end-of-block (one group of 50 with sentinel fill) */
#endif
#ifndef AS
#define AS 4                   /* alphabet: RUNA, RUNB, one MTF value, EOB */
#endif
#ifndef NSEL
#define NSEL 3                 /* selectors on the wire at most (PART 1) */
#endif
#ifndef SEL0
#define SEL0 0
#endif
#ifndef DMAX
#define DMAX 3                 /* adjacent code lengths differ by at most DMAX (PART 2) */
#endif
#ifndef BMASK
#define BMASK 0xFFFFu          /* buckets of the symbol map that may be in use (PART 1); the others are empty */
#endif
#define OUTW 48                /* output words available */

struct inputs {
  unsigned cmapw[16];          /* symbol map, 16 bits per bucket */
  unsigned crc, idx;
  unsigned ntrees, nsel, selmtf[NSEL];
  unsigned len[3][AS], pad;
  unsigned mtfv[NM], code[AS], clen[AS];
};
DECLARE_INPUTS

int32_t divbwt(uint8_t *T, int32_t *SA, int32_t *bucket, int32_t n) { (void)T; (void)SA; (void)bucket; (void)n; return 0; }

static uint32_t OUT[OUTW];

/* independent reader: n <= 32 bits at bit position pos, most significant first */
static unsigned rd(unsigned pos, unsigned n)
{
  const uint8_t *o = (const uint8_t *)OUT;
  unsigned byte = pos >> 3, sh = pos & 7, i;
  uint64_t w = 0;
  for (i = 0; i < 8; i++) w = (w << 8) | (byte + i < 4 * OUTW ? o[byte + i] : 0);
  if (n == 0) return 0;
  return (unsigned)((w << sh) >> (64 - n));
}

/* 57 or more bits starting at pos, left-aligned */
static uint64_t rd64(unsigned pos)
{
  const uint8_t *o = (const uint8_t *)OUT;
  unsigned byte = pos >> 3, sh = pos & 7, i;
  uint64_t w = 0;
  for (i = 0; i < 8; i++) w = (w << 8) | (byte + i < 4 * OUTW ? o[byte + i] : 0);
  return w << sh;
}

static struct { struct encoder_state e; uint16_t room[GROUP_SIZE + 64 + 2 * OUTW]; } U;   /* room = the flexible SA[] */

void h_transmit(void)
{
  LOAD_INPUTS();
  struct encoder_state *s = &U.e;
  uint16_t *mtfv = (void *)s->SA;
  unsigned i, j, t, v, nt, nsel, cost;

  /* ---- pre-state ---- */
  s->nmtf = NM; s->max_block_size = 64;
  s->block_crc = IN.crc; s->bwt_idx = IN.idx & 0xFFFFFF;
#if PART == 1
  for (i = 0; i < 16; i++) for (j = 0; j < 16; j++) s->cmap[16 * i + j] = ((BMASK >> (15 - i)) & 1u) ? ((IN.cmapw[i] >> (15 - j)) & 1u) : 0;
#ifdef NT
  nt = NT;                                                       /* table count concrete per query */
#else
  nt = IN.ntrees; ASSUME(nt >= MIN_TREES && nt <= MAX_TREES);
#endif
  nsel = IN.nsel; ASSUME(nsel >= 1 && nsel <= NSEL);
  for (i = 0; i < NSEL; i++) { ASSUME(IN.selmtf[i] < nt); s->u.s.selectorMTF[i] = (uint8_t)IN.selmtf[i]; }
#else
  s->cmap[65] = true; s->cmap[200] = true;                      /* two buckets in use */
  nt = 2; nsel = 1; s->u.s.selectorMTF[0] = 0;
#endif
  s->u.s.num_trees = nt; s->u.s.num_selectors = nsel;
  for (t = 0; t < MAX_TREES; t++) { s->u.s.tmap_new2old[t] = t; s->u.s.tmap_old2new[t] = t; }
#if PART == 2
  s->u.s.tmap_new2old[0] = SEL0; s->u.s.tmap_new2old[1] = 1 - SEL0;   /* wire order of the tables is a renumbering (concrete per query) */
  for (t = 0; t < 2; t++) for (v = 0; v < AS; v++) {
    ASSUME(IN.len[t][v] >= 1 && IN.len[t][v] <= 20); s->u.s.length[t][v] = (uint8_t)IN.len[t][v];
    if (v > 0) ASSUME(IN.len[t][v] <= IN.len[t][v - 1] + DMAX && IN.len[t][v - 1] <= IN.len[t][v] + DMAX);   /* stated bound on the delta run */
  }
  ASSUME(IN.pad <= 3); s->u.s.tree_pad = IN.pad;
#else
  for (t = 0; t < MAX_TREES; t++) for (v = 0; v < AS; v++) s->u.s.length[t][v] = (v < 2 ? 2 : 3);
  s->u.s.tree_pad = 0;
#endif
  /* the table the (only real) group uses */
  unsigned gt = 0;
#if PART == 3
  for (v = 0; v < AS; v++) {
    ASSUME(IN.clen[v] >= 1 && IN.clen[v] <= 20 && IN.code[v] < (1u << IN.clen[v]));
    s->u.s.length[gt][v] = (uint8_t)IN.clen[v]; s->u.s.code[gt][v] = IN.code[v];
    if (v > 0) ASSUME(IN.clen[v] <= IN.clen[v - 1] + DMAX && IN.clen[v - 1] <= IN.clen[v] + DMAX);   /* keeps the table's delta runs short, see PART 2 */
  }
#else
  for (v = 0; v < AS; v++) s->u.s.code[gt][v] = v & ((1u << s->u.s.length[gt][v]) - 1);   /* some code bits that fit the length */
#endif
  s->u.s.selector[0] = gt; s->u.s.selector[1] = MAX_TREES;
  for (t = 0; t < MAX_TREES; t++) { s->u.s.length[t][AS] = 0; s->u.s.code[t][AS] = 0; }   /* sentinel costs no bits */
  for (i = 0; i + 1 < NM; i++) {
#if PART == 3
    ASSUME(IN.mtfv[i] < AS - 1); mtfv[i] = (uint16_t)IN.mtfv[i];
#else
    mtfv[i] = (uint16_t)(i % (AS - 1));
#endif
  }
  mtfv[NM - 1] = AS - 1;                                         /* end of block */
  for (i = NM; i < GROUP_SIZE; i++) mtfv[i] = AS;                /* sentinel fill */

  /* expected size = sum of the field widths (format), must be whole bytes (encode() pads with tree_pad / a dummy selector) */
  cost = 48 + 32 + 1 + 24 + 16 + 3 + 15;
  for (i = 0; i < 16; i++) { unsigned any = 0; for (j = 0; j < 16; j++) any |= s->cmap[16 * i + j]; if (any) cost += 16; }
  for (i = 0; i < NSEL; i++) if (i < nsel) cost += s->u.s.selectorMTF[i] + 1;
  for (t = 0; t < MAX_TREES; t++) if (t < nt) {
    const uint8_t *len = s->u.s.length[s->u.s.tmap_new2old[t]];
    unsigned a = len[0];
    cost += 5 + (t == 0 ? 2 * s->u.s.tree_pad : 0);
    for (v = 0; v < AS; v++) { cost += 1 + 2 * (a > len[v] ? a - len[v] : len[v] - a); a = len[v]; }
  }
  for (i = 0; i < NM; i++) cost += s->u.s.length[gt][mtfv[i]];
  ASSUME(cost % 8 == 0);
  s->out_expect_len = cost / 8;
  ASSUME(cost / 8 + 12 <= 4 * OUTW);                             /* leaves the two guard words behind the block inside OUT[] */

  /* compress.c do_transmit() allocates (size + 3) / 4 words for the block: everything behind them must stay untouched */
  unsigned words = (cost / 8 + 3) / 4;
  for (i = 0; i < OUTW; i++) OUT[i] = 0xA5A5A5A5u;

  void *rv = transmit(s, OUT);

  /* ---- strict inspection ---- */
  unsigned pos = 0;
  PROP(rv == (void *)OUT, "transmit() writes into the caller's buffer");
  PROP(rd(0, 24) == 0x314159 && rd(24, 24) == 0x265359, "block magic");
  PROP(rd(48, 32) == (IN.crc ^ 0xFFFFFFFFu), "stored block CRC is the finalised CRC of the block");
  PROP(rd(80, 1) == 0, "the block is not randomised");
  PROP(rd(81, 24) == (IN.idx & 0xFFFFFF), "primary index field");
  pos = 105;
  unsigned big = rd(pos, 16); pos += 16;
  for (i = 0; i < 16; i++) {
    unsigned want = 0;
    for (j = 0; j < 16; j++) want = (want << 1) | (s->cmap[16 * i + j] ? 1u : 0u);
    PROP(((big >> (15 - i)) & 1u) == (want != 0), "first-level map marks exactly the buckets with a used byte value");
    if (want != 0) { PROP(rd(pos, 16) == want, "second-level map of a used bucket"); pos += 16; }
  }
  PROP(rd(pos, 3) == nt && nt >= 2 && nt <= 6, "table count field, 2..6"); pos += 3;
  PROP(rd(pos, 15) == nsel && nsel >= 1 && nsel <= 18002, "selector count field"); pos += 15;
  for (i = 0; i < NSEL; i++) if (i < nsel) {
    unsigned m = s->u.s.selectorMTF[i];
    PROP(rd(pos, m + 1) == (1u << (m + 1)) - 2, "selector: m one bits and a zero bit");
    PROP(m < nt, "selector names an existing table");
    pos += m + 1;
  }
#if PART == 1
  if (nsel == NSEL) WITNESS("all_selectors"); if (nt == 6) WITNESS("six_tables");
  if (big == BMASK) WITNESS("all_buckets_used"); if (big == 0x0001) WITNESS("only_last_bucket");
#endif
  for (t = 0; t < MAX_TREES; t++) if (t < nt) {
    const uint8_t *len = s->u.s.length[s->u.s.tmap_new2old[t]];
    unsigned cur = rd(pos, 5); pos += 5;
    PROP(cur >= 1 && cur <= 20, "start length of a table is within 1..20");
    for (v = 0; v < AS; v++) {
      unsigned steps;
      uint64_t w = rd64(pos);                                    /* 24 steps of 2 bits and the stop bit fit in 57 bits */
      for (steps = 0; steps < 24; steps++) {                     /* 19 real steps + 3 padding steps at most */
        if (!(w >> 63)) break;
        if (!((w >> 62) & 1)) cur++; else cur--;
        w <<= 2; pos += 2;
        PROP(cur >= 1 && cur <= 20, "running length stays within 1..20 (a strict decoder rejects anything else)");
      }
      PROP(steps < 24, "delta code terminates");
      pos += 1;
      PROP(cur == len[v], "delta code arrives at the symbol's code length");
    }
  }
#if PART == 2
  if (IN.pad == 3 && IN.len[SEL0][0] == 3) WITNESS("pad3_on_length3");
  if (IN.pad == 3 && IN.len[SEL0][0] == 4) WITNESS("pad3_on_length4");
  if (IN.pad == 3 && IN.len[SEL0][0] == 20) WITNESS("pad3_on_length20");
  if (IN.len[0][1] == 20 && IN.len[1][2] == 1) WITNESS("both_extremes");
#endif
  for (i = 0; i < NM; i++) {
    unsigned mv = mtfv[i], n = s->u.s.length[gt][mv];
    PROP(rd(pos, n) == s->u.s.code[gt][mv], "symbol is sent as its code in the group's table");
    pos += n;
  }
#if PART == 3
  if (IN.clen[0] == 20 && IN.clen[AS - 1] == 20) WITNESS("longest_codes");
  if (IN.clen[0] == 1) WITNESS("shortest_code");
#endif
  PROP(pos == cost, "the block ends where the announced size says");
  PROP(pos % 8 == 0, "a block is a whole number of bytes");
  PROP(rd(pos, 32 * words - pos) == 0, "padding up to the end of the last word is zero");
  PROP(OUT[words] == 0xA5A5A5A5u && OUT[words + 1] == 0xA5A5A5A5u, "transmit() writes exactly the (size + 3) / 4 words that compress.c allocates for the block (C08)");
  if (cost % 32 == 0) WITNESS("size_multiple_of_4"); else WITNESS("size_not_multiple_of_4");
  WITNESS("inspected");
}

HARNESS_MAIN(REPLAY_ENTRY)

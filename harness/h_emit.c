/* C09 / C05 / C06 / C15: the resumable run-length decoder.  Real code: src/decode.c emit().
 *
 * h_emit_split: a decoded block is given as the linked list emit() walks (tt[]: next-index<<8 | byte,
 *   N entries, arbitrary contents with in-range links, arbitrary start entry), and is emitted through
 *   up to three output buffers of symbolic sizes m1, m2 (>=1) and a final large one.  The concatenated
 *   output, the verdict (OK / ERR_RUNLEN), the CRC and the unused space are compared with a direct
 *   reference un-RLE of the byte sequence along the list.  Every resume state of emit() is entered
 *   this way, so the result is independent of where output buffer boundaries fall (C09); a block that
 *   ends in four equal bytes without a count byte is rejected however it is split (C05/C06).
 */
#include "verif.h"
#include "decode.c"            /* the real /repo/src/decode.c */

#ifndef NB
#define NB 5                   /* block bytes (entries of the list) */
#endif
#ifndef VMAX
#define VMAX 3                 /* byte values 0..VMAX (bounds the expansion of a count byte) */
#endif
#define OUTMAX (NB + (NB / 5 + 1) * VMAX + 2)

struct inputs {
  unsigned n;                  /* block size 1..NB */
  unsigned start;              /* first list entry */
  unsigned link[NB];
  unsigned byte[NB];
  unsigned m1, m2;
};
DECLARE_INPUTS

void *xmalloc(size_t n) { void *p = malloc(n); ASSUME(p != 0); return p; }

static uint32_t ref_crc(uint32_t s, unsigned b) { s = (s << 8) ^ crc_table[(s >> 24) ^ (b)]; return s; }

void h_emit_split(void)
{
  LOAD_INPUTS();
  static uint32_t tt[NB];
  struct decoder_state ds;
  uint8_t x[NB], want[OUTMAX + 4], got[OUTMAX + 4];
  unsigned i, n = IN.n, wn = 0, gn = 0;
  int want_rv = OK;
  uint32_t wcrc = 0xFFFFFFFFu;

  ASSUME(n >= 1 && n <= NB && IN.start < n);
  for (i = 0; i < NB; i++) {
    ASSUME(IN.link[i] < n && IN.byte[i] <= VMAX);
    tt[i] = (IN.link[i] << 8) | IN.byte[i];
  }
  /* byte sequence along the list, as decode() leaves it: rle_index = tt[start], then follow */
  {
    uint32_t p = tt[IN.start];
    for (i = 0; i < NB; i++) if (i < n) { p = tt[p >> 8]; x[i] = (uint8_t)p; }
  }
  /* reference un-RLE1 */
  {
    unsigned k = 0, run = 0, prev = 256;
    while (k < n) {
      unsigned b = x[k++];
      want[wn++] = (uint8_t)b; wcrc = ref_crc(wcrc, b);
      if (run > 0 && b == prev) run++; else { run = 1; prev = b; }
      if (run == 4) {
        if (k == n) { want_rv = ERR_RUNLEN; break; }
        unsigned c = x[k++], r;
        for (r = 0; r < VMAX; r++) if (r < c) { want[wn++] = (uint8_t)prev; wcrc = ref_crc(wcrc, prev); }
        run = 0; prev = 256;
      }
    }
  }

  memset(&ds, 0, sizeof ds);
  ds.tt = tt;
  ds.block_size = n;
  /* state as decode() leaves it for a non-randomised block */
  ds.rle_state = 0; ds.rle_crc = 0xFFFFFFFFu; ds.rle_index = tt[IN.start]; ds.rle_avail = n; ds.rle_prev = 0; ds.rle_char = 0;

  unsigned sizes[3];
  ASSUME(IN.m1 >= 1 && IN.m1 <= OUTMAX && IN.m2 >= 1 && IN.m2 <= OUTMAX);
  sizes[0] = IN.m1; sizes[1] = IN.m2; sizes[2] = OUTMAX;
  int rv = MORE;
  unsigned calls = 0;
  size_t left = 0;
  for (i = 0; i < 3 && rv == MORE; i++) {
    left = sizes[i];
    rv = emit(&ds, got + gn, &left);
    gn += sizes[i] - (unsigned)left;
    calls++;
  }
  if (calls == 3 && want_rv == OK) WITNESS("three_buffers");
  if (want_rv == ERR_RUNLEN && calls >= 2) WITNESS("missing_run_length_after_split");
  if (want_rv == OK && wn > n) WITNESS("count_byte_expanded");
  if (calls == 1) WITNESS("one_shot");

  PROP(rv == want_rv, "emit verdict (complete / missing run length) is the reference verdict wherever the output is split");
  if (want_rv == OK) {
    PROP(gn == wn, "emitted length equals the reference decoding");
    for (i = 0; i < OUTMAX; i++) PROP(i >= wn || got[i] == want[i], "emitted bytes equal the reference decoding wherever the output is split");
#ifndef NO_CRC
    PROP(ds.crc == (wcrc ^ 0xFFFFFFFFu), "block CRC is the CRC of exactly the emitted bytes");
#endif
  }
}

/* ------------------------------------------------------------------------------------------------
 * h_emit_step: ONE emit() call from an ARBITRARY resume state (all six), arbitrary remaining input
 * count and a small output buffer, against a resumable reference un-RLE.  The six states are
 * interpreted as (pending byte?, previous byte, its run length so far, copies still to expand):
 *   0: nothing pending, fresh     5: byte c fetched, fresh
 *   k=1..3: byte c fetched; d was written k times in a row      4: c copies of d still to write
 * Checked: bytes written, verdict, CRC, and that the state left behind MEANS the same as the
 * reference's (so any sequence of buffers decodes the same: inductive version of h_emit_split).
 */
#ifndef MB
#define MB 3                   /* output buffer sizes 1..MB */
#endif
struct ust { unsigned mode; unsigned c, d, k, rem; uint32_t p, a, crc; };   /* mode 0 fresh/no pending, 1 pending, 2 expanding */

void h_emit_step(void)
{
  LOAD_INPUTS();
  static uint32_t tt[NB];
  struct decoder_state ds;
  uint8_t got[MB + 1], want[MB + 1];
  unsigned i, n = NB, st = IN.n % 6u, m0 = IN.m1, wn = 0;
  struct ust R;
  int want_rv = -1;
  ASSUME(m0 >= 1 && m0 <= MB);
  for (i = 0; i < NB; i++) { ASSUME(IN.link[i] < n && IN.byte[i] <= VMAX); tt[i] = (IN.link[i] << 8) | IN.byte[i]; }
  ASSUME(IN.start < n && IN.m2 <= NB);   /* remaining input count 0..NB */
  /* arbitrary resume state */
  memset(&ds, 0, sizeof ds);
  ds.tt = tt; ds.block_size = n;
  ds.rle_state = (int)st; ds.rle_index = tt[IN.start]; ds.rle_avail = IN.m2; ds.rle_crc = 0x12345678u;
  ds.rle_char = (uint8_t)(IN.byte[0] ^ 0); ds.rle_prev = (uint8_t)IN.byte[1];
  ASSUME(st != 4 || ds.rle_char <= VMAX);
  /* its meaning */
  R.p = ds.rle_index; R.a = ds.rle_avail; R.crc = ds.rle_crc; R.c = ds.rle_char; R.d = ds.rle_prev; R.rem = 0;
  if (st == 0) { R.mode = 0; R.k = 0; }
  else if (st == 5) { R.mode = 1; R.k = 0; }
  else if (st == 4) { R.mode = 2; R.rem = ds.rle_char; R.k = 0; }
  else { R.mode = 1; R.k = st; }
  /* reference: resumable un-RLE, at most MB bytes of output */
  {
    unsigned m = m0, guard;
    for (guard = 0; guard < 3 * MB + 4 && want_rv < 0; guard++) {
      if (R.mode == 2) {
        if (R.rem > 0) { if (m == 0) { want_rv = MORE; break; } want[wn++] = (uint8_t)R.d; R.crc = ref_crc(R.crc, R.d); R.rem--; m--; continue; }
        R.mode = 0; R.k = 0;
      }
      if (R.mode == 0) {
        if (R.a == 0) { want_rv = OK; break; }
        R.a--; R.p = tt[R.p >> 8]; R.c = R.p & 0xFF; R.mode = 1;
      }
      if (m == 0) { want_rv = MORE; break; }
      want[wn++] = (uint8_t)R.c; R.crc = ref_crc(R.crc, R.c); m--;
      if (R.k > 0 && R.c == R.d) R.k++; else { R.d = R.c; R.k = 1; }
      R.mode = 0;
      if (R.k == 4) {
        if (R.a == 0) { want_rv = ERR_RUNLEN; break; }
        R.a--; R.p = tt[R.p >> 8]; R.rem = R.p & 0xFF; R.mode = 2; R.k = 0;
      }
    }
    ASSUME(want_rv >= 0);
  }

  size_t left = m0;
  int rv = emit(&ds, got, &left);
  unsigned gn = m0 - (unsigned)left;

  if (want_rv == MORE && R.mode == 1 && R.k == 0) WITNESS("suspended_with_fresh_byte_pending");
  if (want_rv == MORE && R.mode == 2) WITNESS("suspended_inside_run_expansion");
  if (want_rv == MORE && R.mode == 1 && R.k == 3) WITNESS("suspended_before_fourth_equal_byte");
  if (want_rv == OK) WITNESS("block_finished");
  if (want_rv == ERR_RUNLEN) WITNESS("missing_run_length");

  PROP(rv == want_rv, "verdict of one emit() call equals the reference from the same resume state");
  if (want_rv != ERR_RUNLEN) {
    PROP(gn == wn, "bytes written by one emit() call equal the reference");
    for (i = 0; i < MB; i++) PROP(i >= wn || got[i] == want[i], "byte values written by one emit() call equal the reference");
  }
  if (want_rv == OK) PROP(ds.crc == (R.crc ^ 0xFFFFFFFFu), "CRC handed out at the end of a block covers exactly the emitted bytes");
  if (want_rv == MORE) {
    /* the state left behind must MEAN the reference's state */
    unsigned s2 = (unsigned)ds.rle_state;
    PROP(s2 <= 5, "resume state is one of the six");
    PROP(ds.rle_avail == R.a && ds.rle_crc == R.crc, "remaining input count and CRC carried over");
    if (R.mode == 2) PROP(s2 == 4 && ds.rle_char == R.rem && ds.rle_prev == R.d, "suspended inside a run expansion: copies left and run byte carried over");
    else if (R.mode == 1 && R.k == 0) PROP(s2 == 5 && ds.rle_char == R.c && ds.rle_index == R.p, "suspended with a fetched byte that starts a new run");
    else if (R.mode == 1) PROP(s2 == R.k && ds.rle_char == R.c && ds.rle_prev == R.d && ds.rle_index == R.p, "suspended with a fetched byte after a run of k equal bytes: k, both bytes and the list position carried over");
    else PROP((s2 == 0 && ds.rle_index == R.p) , "suspended with nothing pending");
  }
}

HARNESS_MAIN(REPLAY_ENTRY)

/* C09 / C05 / C06 / C15: the resumable run-length decoder.  Real code: src/decode.c emit().
 *
 * h_emit_split: a decoded block is given as the linked list emit() walks (tt[]: next-index<<8 | byte,
 *   N entries, arbitrary contents with in-range links, arbitrary start entry), and is emitted through
 *   up to three output buffers of symbolic sizes m1, m2 (>=1) and a final large one.  The concatenated
 *   output, the verdict (OK / ERR_RUNLEN), the CRC and the unused space are compared with a direct
 *   reference un-RLE of the byte sequence along the list.  Every resume state of emit() is entered
 *   this way, so the result is independent of where output buffer boundaries fall (C09); a block that
 *   ends in four equal bytes without a count byte is rejected however it is split (C05/C06).
 */
#include "verif.h"
#include "decode.c"            /* the real /repo/src/decode.c */

#ifndef NB
#define NB 5                   /* block bytes (entries of the list) */
#endif
#ifndef VMAX
#define VMAX 3                 /* byte values 0..VMAX (bounds the expansion of a count byte) */
#endif
#define OUTMAX (NB + (NB / 5 + 1) * VMAX + 2)

struct inputs {
  unsigned n;                  /* block size 1..NB */
  unsigned start;              /* first list entry */
  unsigned link[NB];
  unsigned byte[NB];
  unsigned m1, m2;
};
DECLARE_INPUTS

void *xmalloc(size_t n) { void *p = malloc(n); ASSUME(p != 0); return p; }

static uint32_t ref_crc(uint32_t s, unsigned b) { s = (s << 8) ^ crc_table[(s >> 24) ^ (b)]; return s; }

void h_emit_split(void)
{
  LOAD_INPUTS();
  static uint32_t tt[NB];
  struct decoder_state ds;
  uint8_t x[NB], want[OUTMAX + 4], got[OUTMAX + 4];
  unsigned i, n = IN.n, wn = 0, gn = 0;
  int want_rv = OK;
  uint32_t wcrc = 0xFFFFFFFFu;

  ASSUME(n >= 1 && n <= NB && IN.start < n);
  for (i = 0; i < NB; i++) {
    ASSUME(IN.link[i] < n && IN.byte[i] <= VMAX);
    tt[i] = (IN.link[i] << 8) | IN.byte[i];
  }
  /* byte sequence along the list, as decode() leaves it: rle_index = tt[start], then follow */
  {
    uint32_t p = tt[IN.start];
    for (i = 0; i < NB; i++) if (i < n) { p = tt[p >> 8]; x[i] = (uint8_t)p; }
  }
  /* reference un-RLE1 */
  {
    unsigned k = 0, run = 0, prev = 256;
    while (k < n) {
      unsigned b = x[k++];
      want[wn++] = (uint8_t)b; wcrc = ref_crc(wcrc, b);
      if (run > 0 && b == prev) run++; else { run = 1; prev = b; }
      if (run == 4) {
        if (k == n) { want_rv = ERR_RUNLEN; break; }
        unsigned c = x[k++], r;
        for (r = 0; r < VMAX; r++) if (r < c) { want[wn++] = (uint8_t)prev; wcrc = ref_crc(wcrc, prev); }
        run = 0; prev = 256;
      }
    }
  }

  memset(&ds, 0, sizeof ds);
  ds.tt = tt;
  ds.block_size = n;
  /* state as decode() leaves it for a non-randomised block */
  ds.rle_state = 0; ds.rle_crc = 0xFFFFFFFFu; ds.rle_index = tt[IN.start]; ds.rle_avail = n; ds.rle_prev = 0; ds.rle_char = 0;

  unsigned sizes[3];
  ASSUME(IN.m1 >= 1 && IN.m1 <= OUTMAX && IN.m2 >= 1 && IN.m2 <= OUTMAX);
  sizes[0] = IN.m1; sizes[1] = IN.m2; sizes[2] = OUTMAX;
  int rv = MORE;
  unsigned calls = 0;
  size_t left = 0;
  for (i = 0; i < 3 && rv == MORE; i++) {
    left = sizes[i];
    rv = emit(&ds, got + gn, &left);
    gn += sizes[i] - (unsigned)left;
    calls++;
  }
  if (calls == 3 && want_rv == OK) WITNESS("three_buffers");
  if (want_rv == ERR_RUNLEN && calls >= 2) WITNESS("missing_run_length_after_split");
  if (want_rv == OK && wn > n) WITNESS("count_byte_expanded");
  if (calls == 1) WITNESS("one_shot");

  PROP(rv == want_rv, "emit verdict (complete / missing run length) is the reference verdict wherever the output is split");
  if (want_rv == OK) {
    PROP(gn == wn, "emitted length equals the reference decoding");
    for (i = 0; i < OUTMAX; i++) PROP(i >= wn || got[i] == want[i], "emitted bytes equal the reference decoding wherever the output is split");
#ifndef NO_CRC
    PROP(ds.crc == (wcrc ^ 0xFFFFFFFFu), "block CRC is the CRC of exactly the emitted bytes");
#endif
  }
}

HARNESS_MAIN(REPLAY_ENTRY)

/* C16 / C17 / C18 / C07 / C21 / C22: the real main.c and signals.c under a symbolic operating system.
 *
 * Real code executed: main(), opts_setup(), input_init(), output_init(), output_regf_uninit(),
 * input_oprnd_rm(), input_uninit(), suffix_xform(), cleanup(), the whole logging family (DEF macro),
 * and signals.c: setup_signals(), cli(), sti(), halt(), terminate(), bailout(), promote(), xraise().
 *
 * The OS is a stub (DESIGN.md 3.3):
 *  - a file system with, per operand, an input node and an output node (exists, type, link count, mode,
 *    owner, time stamps, content state, "created by this run");
 *  - EVERY system call execution may fail: the k-th call consults IN.fail[k] (0 = succeed, else errno);
 *  - stderr writes may fail too (IN.fail as well);
 *  - signals: per-thread mask, process-pending set, action table; kill()/unblocking deliver according
 *    to the real masks/actions the code installed; SIGINT/SIGTERM/"sub-thread failure" arrive while the
 *    main thread waits in sigsuspend() (that is where the real program waits during all of work()).
 *  - work() is a contract stub: it performs output writes on the model file system and then calls the
 *    REAL halt(); what happens next (success, fatal error from a sub-thread, SIGINT/SIGTERM) is decided
 *    by the signal model + the real signal code.
 *  - SIGKILL: the data-safety predicate is asserted after every mutating system call.
 *  - _exit() and death by signal evaluate the end-state predicates and end the path.
 */
#include "verif.h"
#include <stdarg.h>
#include <string.h>
#include <stdio.h>
#include <stdlib.h>
#include <errno.h>
#include <signal.h>
#include <pthread.h>
#include <unistd.h>
#include <fcntl.h>
#include <time.h>
#include <sys/stat.h>
#include <sys/types.h>
#ifdef REPLAY
#include <setjmp.h>
static jmp_buf cut_jmp;
#define CUT() longjmp(cut_jmp, 1)
#else
#define CUT() __CPROVER_assume(0)
#endif

#ifndef NOPER
#define NOPER 1                /* FILE operands */
#endif
#ifndef NSYS
#define NSYS 40                /* system-call executions with an individually symbolic outcome */
#endif
#ifndef NEV
#define NEV 2                  /* asynchronous events considered per sigsuspend() */
#endif

struct node_in {               /* symbolic initial state of one operand's files */
  unsigned in_exists, in_type, in_nlink, in_mode, in_uid, in_atime, in_mtime;
  unsigned out_exists;         /* a file with the output name exists beforehand */
};
struct inputs {
  struct node_in op[NOPER];
  int fail[NSYS];              /* k-th syscall execution: 0 ok, >0 errno of the failure */
  unsigned ev[NOPER][NEV];     /* events while waiting in halt(): 0 none, 1 SIGINT, 2 SIGTERM, 3 sub-thread error (plain),
                                  4 sub-thread EPIPE (SIGPIPE pending), 5 sub-thread EFBIG (SIGXFSZ pending) */
  unsigned work_kind[NOPER];   /* 0 run to completion, 1 main-thread read error, 2 main-thread data error (failf), 3 main-thread write error */
  unsigned work_errno;
  unsigned umask;
  unsigned stdin_tty, stdout_tty;
  unsigned inherited_mask;     /* signals blocked on entry (bit per handled signal) */
};
DECLARE_INPUTS

/* ------------------------------------------------------------------ model state */
enum { T_REG = 0, T_DIR = 1, T_OTHER = 2 };
enum { C_NONE = 0, C_PARTIAL = 1, C_COMPLETE = 2 };
struct fnode {
  bool exists; unsigned type, nlink, mode, uid, gid, atime, mtime;
  int content; bool ours; bool open_fd; bool touched;   /* touched: a pre-existing file was modified or unlinked */
  unsigned chmod_to; bool chmod_done; bool utimens_done; unsigned ut_a, ut_m; bool closed_ok;
};
static struct fnode fin[NOPER], fout[NOPER];
static const char *oper_name[NOPER];
static char out_name[NOPER][24];
static bool out_name_set[NOPER];
static int cur;                       /* operand being processed (by pointer identity of the name) */
static unsigned sysk;                 /* syscall execution counter */
static bool stderr_used, stdout_closed;
static int exit_code = -1, death_signal = 0;
static bool ended;
static unsigned warned_ops;           /* operands for which a warning was printed (model of EX_WARN) */
static int H;                         /* scenario */
static int in_fd_of[NOPER], out_fd_of[NOPER];

static int sys_fail(void)             /* does this syscall execution fail?  returns errno or 0 */
{
  unsigned k = sysk++;
  if (k >= NSYS) CUT();
  int e = IN.fail[k];
  if (e <= 0) return 0;
  return e;
}

/* ------------------------------------------------------------------ end-state predicates */
static void check_kill_safety(void)   /* holds at every instant (SIGKILL) */
{
  int i;
  for (i = 0; i < NOPER; i++) {
    if (!IN.op[i].in_exists || IN.op[i].in_type != T_REG) continue;
    PROP(fin[i].exists || (fout[i].exists && fout[i].ours && fout[i].content == C_COMPLETE && !fout[i].open_fd),
         "at every instant the input still exists or a complete, closed output exists (C16, SIGKILL)");
    PROP(!fin[i].touched, "the input file is never modified");
  }
}

static void end_of_process(void);

/* ------------------------------------------------------------------ signal model */
#define SIGBIT(s) (1u << (s))
static unsigned thr_mask, pending;     /* main-thread mask, process-level pending set (bit per signal number < 32) */
static void (*action[32])(int);
bool verif_in_subthread;               /* bailout() called on behalf of a sub-thread */
#define in_subthread verif_in_subthread

/* sigset_t modelled on its first word (signal numbers < 32 only) */
int v_sigemptyset(sigset_t *s) { memset(s, 0, sizeof *s); return 0; }
int v_sigaddset(sigset_t *s, int n) { s->__val[0] |= 1ul << n; return 0; }
int v_sigismember(const sigset_t *s, int n) { return (int)((s->__val[0] >> n) & 1ul); }

void verif_cut(void) { CUT(); }
static void die_by(int sig) { death_signal = sig; ended = true; end_of_process(); CUT(); }
static void deliver_unblocked(void)
{
  int s;
  for (s = 1; s < 32; s++)
    if ((pending & SIGBIT(s)) && !(thr_mask & SIGBIT(s))) {
      pending &= ~SIGBIT(s);
      if (action[s] == SIG_DFL) die_by(s);          /* all signals used here terminate by default */
      else if (action[s] != SIG_IGN) action[s](s);
    }
}
static unsigned set_bits(const sigset_t *set) { unsigned b = 0; int s; for (s = 1; s < 32; s++) if (sigismember(set, s) == 1) b |= SIGBIT(s); return b; }

int v_sigmask(int how, const sigset_t *set, sigset_t *oset)
{
  if (oset) { int s; sigemptyset(oset); for (s = 1; s < 32; s++) if (thr_mask & SIGBIT(s)) sigaddset(oset, s); }
  if (set) {
    unsigned b = set_bits(set);
    if (how == SIG_BLOCK) thr_mask |= b; else if (how == SIG_UNBLOCK) thr_mask &= ~b; else thr_mask = b;
    deliver_unblocked();
  }
  return 0;
}
int v_sigaction(int sig, const struct sigaction *act, struct sigaction *old) { (void)old; if (act) action[sig] = act->sa_handler; return 0; }
int v_kill(int pid, int sig) { (void)pid; pending |= SIGBIT(sig); if (!in_subthread) deliver_unblocked(); return 0; }
int v_sigpending(sigset_t *set) { int s; sigemptyset(set); for (s = 1; s < 32; s++) if (pending & SIGBIT(s)) sigaddset(set, s); return 0; }

/* ------------------------------------------------------------------ stdio model */
static int v_fprintf(FILE *f, const char *fmt, ...) { (void)fmt; if (f == stderr) { stderr_used = true; if (sys_fail()) return -1; } return 1; }
static int v_vfprintf(FILE *f, const char *fmt, va_list ap) { (void)fmt; (void)ap; if (f == stderr) { stderr_used = true; if (sys_fail()) return -1; } return 1; }
static int v_fflush(FILE *f) { (void)f; return 0; }
/* ------------------------------------------------------------------ file-system model */
static int which_in(const char *path) { int i; for (i = 0; i < NOPER; i++) if (path == oper_name[i]) return i; return -1; }
static void fill_stat(struct stat *sb, const struct fnode *n)
{
  memset(sb, 0, sizeof *sb);
  sb->st_mode = (n->type == T_REG ? S_IFREG : n->type == T_DIR ? S_IFDIR : S_IFIFO) | (n->mode & 07777);
  sb->st_nlink = n->nlink; sb->st_uid = n->uid; sb->st_gid = n->gid; sb->st_size = 5;
  sb->st_atim.tv_sec = n->atime; sb->st_mtim.tv_sec = n->mtime;
}
static int v_lstat(const char *path, struct stat *sb)
{
  int i = which_in(path), e = sys_fail();
  if (i < 0) CUT();
  cur = i;
  if (e) { errno = e; return -1; }
  if (!fin[i].exists) { errno = ENOENT; return -1; }
  fill_stat(sb, &fin[i]);
  return 0;
}
static int v_open(const char *path, int flags, ...)
{
  int i = which_in(path), e = sys_fail();
  if (i >= 0) {                                         /* opening an operand for reading */
    cur = i;
    PROP(!(flags & (O_WRONLY | O_RDWR | O_TRUNC | O_CREAT)), "operands are opened read-only");
    if (e) { errno = e; return -1; }
    if (!fin[i].exists) { errno = ENOENT; return -1; }
    fin[i].open_fd = true;
    return in_fd_of[i];
  }
  /* any other path is the output name derived for the current operand */
  i = cur;
  { va_list ap; va_start(ap, flags); unsigned mode = va_arg(ap, unsigned); va_end(ap);
    PROP((flags & O_CREAT) && (flags & O_EXCL) && (flags & O_WRONLY), "output files are created exclusively, write-only");
    strncpy(out_name[i], path, sizeof out_name[i] - 1); out_name_set[i] = true;
    if (e) { errno = e; return -1; }
    if (fout[i].exists) { errno = EEXIST; return -1; }
    fout[i].exists = true; fout[i].ours = true; fout[i].type = T_REG; fout[i].nlink = 1;
    fout[i].mode = mode & ~IN.umask & 0777; fout[i].content = C_NONE; fout[i].open_fd = true;
    check_kill_safety();
    return out_fd_of[i];
  }
}
static int v_fstat(int fd, struct stat *sb)
{
  int i, e = sys_fail();
  for (i = 0; i < NOPER; i++) if (fd == in_fd_of[i]) { if (e) { errno = e; return -1; } fill_stat(sb, &fin[i]); return 0; }
  CUT(); return -1;
}
static int v_close(int fd)
{
  int i, e = sys_fail();
  if (fd == STDOUT_FILENO) { if (e) { errno = e; return -1; } stdout_closed = true; return 0; }
  if (fd == STDIN_FILENO) { if (e) { errno = e; return -1; } return 0; }
  for (i = 0; i < NOPER; i++) {
    if (fd == in_fd_of[i]) { fin[i].open_fd = false; if (e) { errno = e; return -1; } return 0; }
    if (fd == out_fd_of[i]) {
      fout[i].open_fd = false;                          /* the descriptor is gone either way */
      if (e) { fout[i].content = C_PARTIAL; errno = e; return -1; }   /* a failed close may have lost buffered data */
      fout[i].closed_ok = true;
      check_kill_safety();
      return 0;
    }
  }
  PROP(0, "close() of a descriptor the program does not own");
  return -1;
}
static int v_unlink(const char *path)
{
  int i = which_in(path), e = sys_fail();
  if (e == ENOENT) e = EACCES;                           /* ENOENT is reported by the model itself, exactly when the file is absent */
  if (i >= 0) {
    if (e) { errno = e; return -1; }
    if (!fin[i].exists) { errno = ENOENT; return -1; }
    fin[i].exists = false;
    check_kill_safety();
    return 0;
  }
  i = cur;
  /* removing an output file this run created itself does not fail (nothing could be promised otherwise);
     removing somebody else's file (-f) may */
  if (e && !(fout[i].exists && fout[i].ours)) { errno = e; return -1; }
  if (!fout[i].exists) { errno = ENOENT; return -1; }
  if (!fout[i].ours) fout[i].touched = true;           /* a file that existed before this run */
  fout[i].exists = false;
  check_kill_safety();
  return 0;
}
static int v_fchown(int fd, uid_t u, gid_t g) { int i = cur, e = sys_fail(); PROP(fd == out_fd_of[i], "fchown on the output"); if (e) { errno = e; return -1; } fout[i].uid = u; fout[i].gid = g; return 0; }
static int v_fchmod(int fd, mode_t m) { int i = cur, e = sys_fail(); PROP(fd == out_fd_of[i], "fchmod on the output"); if (e) { errno = e; return -1; } fout[i].mode = m & 07777; fout[i].chmod_done = true; return 0; }
static int v_futimens(int fd, const struct timespec ts[2]) { int i = cur, e = sys_fail(); PROP(fd == out_fd_of[i], "futimens on the output"); if (e) { errno = e; return -1; } fout[i].atime = (unsigned)ts[0].tv_sec; fout[i].mtime = (unsigned)ts[1].tv_sec; fout[i].utimens_done = true; return 0; }
static int v_isatty(int fd) { return fd == STDIN_FILENO ? (IN.stdin_tty & 1) : fd == STDOUT_FILENO ? (IN.stdout_tty & 1) : 0; }
static long v_sysconf(int name) { (void)name; return 4; }
static char *env_val[3];
/* strtok(): C standard semantics (leading separators skipped, runs of separators are one break) */
static char *tok_next;
static char *v_strtok(char *str, const char *sep)
{
  char *p = str ? str : tok_next, *start;
  if (!p) return 0;
  while (*p && strchr(sep, *p)) p++;
  if (!*p) { tok_next = 0; return 0; }
  start = p;
  while (*p && !strchr(sep, *p)) p++;
  if (*p) { *p = 0; tok_next = p + 1; } else tok_next = 0;
  return start;
}
/* further <string.h> scanners a tokenizer may use (CBMC ships no bodies for them): C-standard semantics */
static size_t v_strspn(const char *s, const char *set) { size_t n = 0; while (s[n] && strchr(set, s[n])) n++; return n; }
static size_t v_strcspn(const char *s, const char *set) { size_t n = 0; while (s[n] && !strchr(set, s[n])) n++; return n; }
static char *v_strpbrk(const char *s, const char *set) { while (*s) { if (strchr(set, *s)) return (char *)s; s++; } return 0; }
static char *v_getenv(const char *name) { return !strcmp(name, "LBZIP2") ? env_val[0] : !strcmp(name, "BZIP2") ? env_val[1] : !strcmp(name, "BZIP") ? env_val[2] : 0; }
void v_exit(int code) { exit_code = code; ended = true; if (H == 99) { WITNESS("options_refused_at_exit"); PROP(code == 1, "refused options exit with status 1"); CUT(); } end_of_process(); CUT(); }

/* stdio of main.c goes to the model (defined here so that the harness code above keeps the real printf) */
#define fprintf v_fprintf
#define vfprintf v_vfprintf
#define fflush v_fflush
#define flockfile(f) ((void)0)
#define funlockfile(f) ((void)0)
#define setbuf(f, b) ((void)0)
#define printf(...) 1
#define fclose(f) 0
#define strerror(e) "err"

#define lstat v_lstat
#define open v_open
#define fstat v_fstat
#define close v_close
#define unlink v_unlink
#define fchown v_fchown
#define fchmod v_fchmod
#define futimens v_futimens
#define isatty v_isatty
#define sysconf v_sysconf
#define getenv v_getenv
#define strtok v_strtok
#define strspn v_strspn
#define strcspn v_strcspn
#define strpbrk v_strpbrk
#ifdef OPTS_ONLY
/* -n/-m are not in the option vocabulary of the C22 query: number parsing is never reached, keep it cheap for symex */
static long v_strtol(const char *s, char **e, int b) { (void)b; *e = (char *)s; return 1; }
#define strtol v_strtol
#endif
#define main lbzip2_main

/* src/signals.c is compiled as its own translation unit (extra_src) against osmodel_sig.h */
#include "signals.h"
#include "main.c"              /* the real /repo/src/main.c */

#undef main
#undef open
#undef close
#undef printf
#undef fprintf
#undef vfprintf
#undef fflush
#undef fclose

/* ------------------------------------------------------------------ work(): contract stub + real halt() */
int v_sigsuspend(const sigset_t *mask)
{
  unsigned m = set_bits(mask), k, old = thr_mask;
  int i = cur < 0 ? 0 : cur;
  /* asynchronous events that arrive while the main thread waits */
  for (k = 0; k < NEV; k++) {
    unsigned ev = IN.ev[i][k];
    if (ev == 1) pending |= SIGBIT(SIGINT);
    else if (ev == 2) pending |= SIGBIT(SIGTERM);
    else if (ev >= 3 && ev <= 5) {                    /* a sub-thread hit a fatal error and ran the real bailout() */
      in_subthread = true;
      if (ev == 4) pending |= SIGBIT(SIGPIPE);        /* generated for the failing thread; promote() re-raises it for the process */
      if (ev == 5) pending |= SIGBIT(SIGXFSZ);
      pending |= SIGBIT(SIGUSR1);                     /* bailout(): xraise(SIGUSR1) */
      in_subthread = false;
    }
  }
  if (!(pending & (SIGBIT(SIGINT) | SIGBIT(SIGTERM) | SIGBIT(SIGUSR1))))
    pending |= SIGBIT(SIGUSR2);                       /* nothing went wrong: the muxer finished */
  thr_mask = m;
  /* exactly one handler runs per sigsuspend() return; default-action signals kill first */
  {
    int s, chosen = 0;
    for (s = 1; s < 32; s++)
      if ((pending & SIGBIT(s)) && !(thr_mask & SIGBIT(s)) && action[s] == SIG_DFL) { pending &= ~SIGBIT(s); die_by(s); }
    for (s = 1; s < 32 && !chosen; s++)
      if ((pending & SIGBIT(s)) && !(thr_mask & SIGBIT(s)) && action[s] != SIG_IGN) { pending &= ~SIGBIT(s); chosen = s; action[s](s); }
    PROP(chosen != 0, "the waiting main thread is always woken: a completion or failure signal is deliverable in halt() (never hangs, C21/C07)");
    if (!chosen) CUT();
  }
  thr_mask = old;
  errno = EINTR;
  return -1;
}

void work(void)
{
  int i = cur < 0 ? 0 : cur;
  unsigned kind = IN.work_kind[i];
  bool regf = fout[i].ours && fout[i].open_fd;
  if (regf) { fout[i].content = C_PARTIAL; check_kill_safety(); }   /* output is being written */
  if (kind == 1) failfx(&ispec, (int)IN.work_errno, "read()");        /* errors detected by the main thread itself */
  if (kind == 2) failf(&ispec, "not a valid bzip2 file");
  if (kind == 3) failfx(&ospec, (int)IN.work_errno, "write()");
  /* the main thread waits for the worker/muxer threads in the REAL halt(); the events decide what happens */
  halt();
  /* halt() returned: SIGUSR2, every byte was written */
  if (regf) fout[i].content = C_COMPLETE;
  ispec.total = 5; ospec.total = 3;
}

/* ------------------------------------------------------------------ scenario setup and final predicates */
#ifndef ARGS
#define ARGS "-k"
#endif
#ifndef OPER0
#define OPER0 "a"
#endif
#ifndef OPER1
#define OPER1 "b"
#endif
#ifndef PNAME
#define PNAME "lbzip2"
#endif
#ifndef EXPECT_OUT1
#define EXPECT_OUT1 "?"
#endif
static char a_pname[] = PNAME, a_args[] = ARGS, a_op0[] = OPER0, a_op1[] = OPER1;
static bool opt_keep, opt_force, opt_decompress, opt_stdout, opt_test, filter_mode;

static void end_of_process(void)
{
  int i;
  check_kill_safety();
  for (i = 0; i < NOPER; i++) {
    bool regular_run = !opt_stdout && !opt_test && !filter_mode;
    /* C17: without -f an existing output file is never modified or removed */
    if (!opt_force) PROP(!fout[i].touched, "without -f a pre-existing output file is never modified or removed (C17)");
    /* C16: a run that fails or is stopped by a signal leaves no partial output behind */
    if (death_signal != 0 || exit_code == 1)
      PROP(!(fout[i].exists && fout[i].ours && fout[i].content != C_COMPLETE), "a failed or interrupted run leaves no incomplete output file (C16)");
    if (exit_code == 0 || exit_code == 4) {
      PROP(!(fout[i].exists && fout[i].ours && (fout[i].content != C_COMPLETE || fout[i].open_fd)), "a successful exit leaves only complete, closed outputs");
      if (regular_run && fout[i].ours && fout[i].exists) {
        WITNESS("operand_converted");
        PROP(fin[i].exists == opt_keep || (!opt_keep && fin[i].exists && warned), "input is removed exactly when -k is not given (a failed removal is warned about)");
        PROP(fout[i].utimens_done ? (fout[i].atime == fin[i].atime && fout[i].mtime == fin[i].mtime) : warned, "output gets the input's time stamps (or a warning is printed)");
        PROP((fout[i].mode & 0777) == (IN.op[i].in_mode & 0777) || warned, "output gets the input's permission bits (or a warning is printed) (C17)");
      }
      if (!fout[i].ours) PROP(fin[i].exists == (IN.op[i].in_exists != 0), "an operand that was not converted is left alone");
    }
    if (!regular_run) PROP(fin[i].exists == (IN.op[i].in_exists != 0) && !fout[i].ours, "-c / -t never create or remove files");
    /* C17: admission rules when writing output files without -f */
    if (regular_run && !opt_force && (IN.op[i].in_type != T_REG || (IN.op[i].in_nlink > 1 && !opt_keep))) {
      WITNESS("operand_not_admitted");
      PROP(!fout[i].ours, "operands that are not regular files, or (without -k) have several links, are never converted");
      PROP(exit_code != 0, "such operands are skipped with a warning, never silently (exit status is not 0)");
    }
#ifdef EXPECT_SKIP
    if ((EXPECT_SKIP >> i) & 1) {
    PROP(!fout[i].ours && !out_name_set[i], "when compressing, operands with a .bz2/.tbz/.tbz2/.tz2 suffix are always skipped");
    PROP(exit_code != 0, "skipping is announced (exit status 4, or 1 if the warning itself cannot be written)");
    if (exit_code == 4) WITNESS("compressed_suffix_skipped");
    }
#endif
#ifdef EXPECT_OUT
    if (out_name_set[i]) PROP(strcmp(out_name[i], i == 0 ? EXPECT_OUT : EXPECT_OUT1) == 0, "output file is named by the documented suffix rules (C17)");
#endif
  }
#if NOPER > 1
  if (exit_code == 0 || exit_code == 4) { WITNESS("both_operands_processed"); }
  if ((exit_code == 1 || death_signal) && !fout[1].ours && fout[0].ours && fout[0].exists) {
    WITNESS("fatal_error_on_second_operand");
    PROP(fout[0].content == C_COMPLETE && !fout[0].open_fd, "after a fatal error earlier operands are already complete (C18)");
  }
  if ((exit_code == 1 || death_signal) && cur == 0)
    PROP(fin[1].exists == (IN.op[1].in_exists != 0) && !fout[1].ours && !fout[1].touched, "a fatal error stops processing: later operands are untouched (C18)");
#endif
  if (exit_code == 0) PROP(!warned, "exit status 0 only without warnings");
  if (exit_code == 4) PROP(warned, "exit status 4 only after a warning");
  PROP(exit_code == -1 || exit_code == 0 || exit_code == 1 || exit_code == 4, "exit status is 0, 1 or 4");
  if (death_signal) { WITNESS("death_by_signal"); PROP(death_signal == SIGINT || death_signal == SIGTERM || death_signal == SIGPIPE || death_signal == SIGXFSZ, "only SIGINT/SIGTERM/SIGPIPE/SIGXFSZ may end the process"); }
  if (exit_code == 1) { WITNESS("exit_failure"); }
  if (exit_code == 4) { WITNESS("exit_warning"); }
  if (exit_code == 0) { WITNESS("exit_success"); }
#ifdef FILTER_CHECKS
  /* C21: filter mode */
  if (IN.work_kind[0] == 3 || IN.work_kind[0] == 1) {
    PROP(exit_code != 0 && exit_code != 4, "a failed read/write never ends in a success status (C21)");
    PROP(stderr_used == !(IN.work_errno == EPIPE || IN.work_errno == EFBIG), "a diagnostic is printed unless the error is EPIPE or EFBIG (C21)");
  }
  if (IN.ev[0][0] >= 3 || IN.ev[0][1] >= 3) PROP(exit_code == 1 || death_signal == SIGPIPE || death_signal == SIGXFSZ || death_signal == SIGINT || death_signal == SIGTERM,
                                               "a sub-thread I/O failure ends the process with status 1 or the promoted signal (C21)");
#endif
}

static void setup(void)
{
  int i;
  sysk = 0; stderr_used = false; stdout_closed = false; exit_code = -1; death_signal = 0; ended = false; cur = -1;
  thr_mask = 0; pending = 0; in_subthread = false;
  for (i = 0; i < 32; i++) action[i] = SIG_DFL;
  { unsigned b = IN.inherited_mask;                  /* handled signals possibly blocked by the parent */
    if (b & 1) thr_mask |= SIGBIT(SIGUSR1); if (b & 2) thr_mask |= SIGBIT(SIGUSR2); if (b & 4) thr_mask |= SIGBIT(SIGINT); if (b & 8) thr_mask |= SIGBIT(SIGTERM); }
  oper_name[0] = a_op0;
#if NOPER > 1
  oper_name[1] = a_op1;
#endif
  for (i = 0; i < NOPER; i++) {
    const struct node_in *n = &IN.op[i];
    ASSUME(n->in_type <= T_OTHER && n->in_nlink >= 1 && n->in_nlink <= 2 && n->in_mode <= 07777);
    ASSUME(IN.work_kind[i] <= 3);
    { unsigned k; for (k = 0; k < NEV; k++) ASSUME(IN.ev[i][k] <= 5); }
    memset(&fin[i], 0, sizeof fin[i]); memset(&fout[i], 0, sizeof fout[i]);
    fin[i].exists = n->in_exists != 0; fin[i].type = n->in_type; fin[i].nlink = n->in_nlink; fin[i].mode = n->in_mode;
    fin[i].uid = n->in_uid; fin[i].gid = 7; fin[i].atime = n->in_atime; fin[i].mtime = n->in_mtime; fin[i].content = C_COMPLETE;
    fout[i].exists = n->out_exists != 0; fout[i].type = T_REG; fout[i].nlink = 1; fout[i].mode = 0644; fout[i].content = C_COMPLETE; fout[i].ours = false;
    in_fd_of[i] = 10 + i; out_fd_of[i] = 20 + i; out_name_set[i] = false;
  }
  ASSUME(IN.umask <= 0777);
  ASSUME(IN.work_errno >= 1 && IN.work_errno < 200);
  { unsigned k; for (k = 0; k < NSYS; k++) ASSUME(IN.fail[k] >= 0 && IN.fail[k] < 200); }
  env_val[0] = env_val[1] = env_val[2] = 0;
  opt_keep = strchr(a_args, 'k') != 0; opt_force = strchr(a_args, 'f') != 0; opt_decompress = strchr(a_args, 'd') != 0;
  opt_stdout = strchr(a_args, 'c') != 0; opt_test = strchr(a_args, 't') != 0;
}

/* ------------------------------------------------------------------ entry: FILE operand(s) */
void h_main_files(void)
{
  LOAD_INPUTS();
  char *argv[5];
  int argc = 0;
  setup();
  argv[argc++] = a_pname; argv[argc++] = a_args; argv[argc++] = a_op0;
#if NOPER > 1
  argv[argc++] = a_op1;
#endif
  argv[argc] = 0;
#ifdef REPLAY
  if (!setjmp(cut_jmp))
#endif
  lbzip2_main(argc, argv);
  PROP(ended, "main() ends the process through _exit() or a signal");
}

/* ------------------------------------------------------------------ entry: filter (no operands) */
void h_main_filter(void)
{
  LOAD_INPUTS();
  char *argv[3];
  int argc = 0;
  setup();
  filter_mode = true;
  ASSUME((IN.stdin_tty & 1) == 0 && (IN.stdout_tty & 1) == 0);
  argv[argc++] = a_pname; argv[argc++] = a_args; argv[argc] = 0;
#ifdef REPLAY
  if (!setjmp(cut_jmp))
#endif
  lbzip2_main(argc, argv);
  PROP(ended, "main() ends the process through _exit() or a signal");
}

static bool opts_refused;
static bool ref_conflict;   /* reference verdict of the option case being run */
#ifdef OPTS_ONLY
/* option-parsing query: signals.c is not linked; a fatal error ends the path at once */
void setup_signals(void) {}
void cli(void) {}
void sti(void) {}
void halt(void) {}
void xraise(int sig) { (void)sig; }
void bailout(void) { opts_refused = true; WITNESS("options_refused"); PROP(ref_conflict, "options are refused only for the documented -c/-t conflict"); CUT(); }
#endif

/* ------------------------------------------------------------------ C22: invocation name, option sources, option parsing */
#ifndef NTOK
#define NTOK 2                 /* command-line tokens */
#endif
struct tokdef { const char *text; int eff; };
enum { E_NONE, E_D, E_Z, E_C, E_T, E_K, E_F, E_1, E_9, E_5, E_S, E_U, E_DC, E_ZK, E_TK, E_KD };
static const struct tokdef vocab[] = {
  { "-d", E_D }, { "-z", E_Z }, { "-c", E_C }, { "-t", E_T }, { "-k", E_K }, { "-f", E_F }, { "-1", E_1 }, { "-9", E_9 }, { "-5", E_5 },
  { "-s", E_S }, { "-u", E_U }, { "-q", E_NONE }, { "-v", E_NONE },
  { "--decompress", E_D }, { "--compress", E_Z }, { "--stdout", E_C }, { "--test", E_T }, { "--keep", E_K }, { "--force", E_F },
  { "--fast", E_1 }, { "--best", E_9 }, { "--small", E_S }, { "--sequential", E_U }, { "--verbose", E_NONE },
  { "--quiet", E_NONE }, { "--repetitive-fast", E_NONE }, { "--repetitive-best", E_NONE }, { "--exponential", E_NONE },
  { "-dc", E_DC }, { "-zk", E_ZK }, { "-tk", E_TK }, { "-kd", E_KD },
};
#define NVOCAB (sizeof vocab / sizeof vocab[0])
static const char *const pnames[] = { "lbzip2", "bzip2", "bunzip2", "lbunzip2", "bzcat", "lbzcat", "foo" };
/* environment values: writable (strtok), with single, double, leading and trailing separators */
static char env_txt[][16] = { "-d", "-z", "-k", "-c", "-1", "-d -c", "-z  -k", " -d", "-t\t", "-k \t-d", "--small", "-9 -5" };
static const int env_eff[][2] = { { E_D, 0 }, { E_Z, 0 }, { E_K, 0 }, { E_C, 0 }, { E_1, 0 }, { E_D, E_C }, { E_Z, E_K }, { E_D, 0 }, { E_T, 0 }, { E_K, E_D }, { E_S, 0 }, { E_9, E_5 } };
#define NENV (sizeof env_txt / sizeof env_txt[0])

struct optstate { bool decompress, keep, force, ultra, conflict; int outmode; unsigned level; };
static void ref_apply1(struct optstate *o, int e)
{
  if (o->conflict) return;
  switch (e) {
  case E_D: o->decompress = true; if (o->outmode == OM_DISCARD) o->outmode = OM_REGF; break;
  case E_Z: o->decompress = false; if (o->outmode == OM_DISCARD) o->outmode = OM_REGF; break;
  case E_C: if (o->outmode == OM_DISCARD) o->conflict = true; else o->outmode = OM_STDOUT; break;
  case E_T: if (o->outmode == OM_STDOUT) o->conflict = true; else { o->outmode = OM_DISCARD; o->decompress = true; } break;
  case E_K: o->keep = true; break;
  case E_F: o->force = true; break;
  case E_1: o->level = 1; break;
  case E_9: o->level = 9; break;
  case E_5: o->level = 5; break;
  case E_U: o->ultra = true; break;
  default: break;                      /* -s/--small and the compatibility options change nothing */
  }
}
static void ref_apply(struct optstate *o, int e)
{
  if (e == E_DC) { ref_apply1(o, E_D); ref_apply1(o, E_C); }
  else if (e == E_ZK) { ref_apply1(o, E_Z); ref_apply1(o, E_K); }
  else if (e == E_TK) { ref_apply1(o, E_T); ref_apply1(o, E_K); }
  else if (e == E_KD) { ref_apply1(o, E_K); ref_apply1(o, E_D); }
  else ref_apply1(o, e);
}

/* One concrete case of the option query: environment selection e (0 = none, else variable (e-1)/NENV set to value
   (e-1)%NENV), command-line tokens t0/t1 (NVOCAB = absent), invocation name pn.  The CALLER selects the case with a
   symbolic condition, so all strings are concrete for symex while the choice of case stays with the solver. */
static char env_copy[3][16];
static void opts_case(unsigned pn, unsigned e, unsigned t0, unsigned t1)
{
  struct optstate R;
  struct arg *operands = 0;
  char *argv[4];
  unsigned i, argc = 1, var = 0, val = 0;
  env_val[0] = env_val[1] = env_val[2] = 0;
  if (e) { var = (e - 1) / NENV; val = (e - 1) % NENV; memcpy(env_copy[var], env_txt[val], 16); env_val[var] = env_copy[var]; }
  argv[0] = (char *)pnames[pn];
  if (t0 < NVOCAB) argv[argc++] = (char *)vocab[t0].text;
  if (t0 < NVOCAB && t1 < NVOCAB) argv[argc++] = (char *)vocab[t1].text;
  argv[argc] = 0;

  /* reference: documented rules */
  R.decompress = (pn == 2 || pn == 3 || pn == 4 || pn == 5); R.outmode = (pn == 4 || pn == 5) ? OM_STDOUT : OM_REGF;
  R.keep = R.force = R.ultra = R.conflict = false; R.level = 9;
  if (e) { ref_apply(&R, env_eff[val][0]); if (env_eff[val][1]) ref_apply(&R, env_eff[val][1]); }
  for (i = 1; i < argc; i++) ref_apply(&R, vocab[i == 1 ? t0 : t1].eff);
  if (!R.conflict && R.outmode == OM_REGF) R.outmode = OM_STDOUT;        /* no FILE operands: filter */

  pname = argv[0];
  decompress = false; outmode = OM_REGF; bs100k = 9; keep = force = small = ultra = verbose = false; num_worker = 0;
  opts_refused = false; ref_conflict = R.conflict;
#ifdef REPLAY
  if (!setjmp(cut_jmp))
#endif
  opts_setup(&operands, argc, argv);
  if (opts_refused) return;             /* (replay build; CBMC paths end in bailout()) */
  if (pn >= 2 && pn <= 5) WITNESS("decompressing_name");
  if (e && argc == 3) WITNESS("environment_and_two_tokens");
  if (e && val == 6) WITNESS("environment_value_with_double_separator");
  PROP(!R.conflict, "-c together with -t is refused");
  PROP(operands == 0, "option tokens (also from the environment) never become FILE operands");
  PROP(decompress == R.decompress, "mode: invocation name, then -d/-z from environment and command line, last one wins (C22)");
  PROP(outmode == R.outmode, "output destination follows the documented rules (C22)");
  PROP(bs100k == R.level && keep == R.keep && force == R.force && ultra == R.ultra, "level/-k/-f/-u follow the documented rules (C22)");
  PROP(num_worker == 4, "worker count defaults to the number of online processors");
}

#ifndef PN_MASK
#define PN_MASK 0x7f           /* which invocation names the query ranges over (bit per entry of pnames[]) */
#endif
#ifndef USE_ENV
#define USE_ENV 1
#endif
void h_opts(void)
{
  LOAD_INPUTS();
  unsigned sel_pn = IN.op[0].in_uid, sel_e = IN.op[0].in_atime, sel_t0 = IN.op[0].in_mtime, sel_t1 = IN.op[0].in_mode, pn, e, t0, t1;
  sysk = 0; filter_mode = true; H = 99;
  { unsigned k; for (k = 0; k < NSYS; k++) ASSUME(IN.fail[k] == 0); }
  ASSUME((IN.stdin_tty & 1) == 0 && (IN.stdout_tty & 1) == 0);
  ASSUME(sel_pn < 7 && ((PN_MASK >> sel_pn) & 1) && sel_e <= (USE_ENV ? 3 * NENV : 0) && sel_t0 <= NVOCAB && sel_t1 <= NVOCAB);
#if NTOK < 2
  ASSUME(sel_t1 == NVOCAB);
#endif
#if NTOK < 1
  ASSUME(sel_t0 == NVOCAB);
#endif
  /* every case runs with concrete strings; which case is taken is the solver's choice */
  for (pn = 0; pn < 7; pn++) if ((PN_MASK >> pn) & 1)
    for (e = 0; e <= (USE_ENV ? 3 * NENV : 0); e++)
      for (t0 = (NTOK >= 1 ? 0 : NVOCAB); t0 <= NVOCAB; t0++)
        for (t1 = (NTOK >= 2 ? 0 : NVOCAB); t1 <= NVOCAB; t1++)
          if (sel_pn == pn && sel_e == e && sel_t0 == t0 && sel_t1 == t1) opts_case(pn, e, t0, t1);
}

void v_exit_opts_check(int code)
{
  /* called from v_exit() when h_opts runs */
  (void)code;
}

HARNESS_MAIN(REPLAY_ENTRY)

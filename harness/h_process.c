/* C03 / C19 / C21 / C13 (and C09's -t/-c clause): I/O layer of src/process.c.
 * Real code: xread(), xwrite(), work() (format sniffing), set_memory_constraints(), the copy pipeline
 * callbacks, source_thread_proc()/sink_thread_proc() (run sequentially), up_heap()/down_heap().
 * The operating system is a symbolic stub: every read()/write() call returns an arbitrary value its
 * contract allows (short counts, 0 = EOF, -1 with an arbitrary errno), taken from IN.
 */
#include "verif.h"
#include <stdarg.h>
#include <string.h>
#include <sys/types.h>
#include <pthread.h>
#include <signal.h>
#include <unistd.h>
#include <errno.h>
#include <stdlib.h>
#ifdef REPLAY
#include <setjmp.h>
static jmp_buf cut_jmp;
#define CUT() longjmp(cut_jmp, 1)
#define RUN_CUT(stmt) do { if (!setjmp(cut_jmp)) { stmt; } } while (0)
#else
#define CUT() __CPROVER_assume(0)
#define RUN_CUT(stmt) do { stmt; } while (0)
#endif

#ifndef SRC_MAX
#define SRC_MAX 12             /* bytes of input the model file holds */
#endif
#ifndef NCALL
#define NCALL 10               /* read()/write() calls with individually symbolic results */
#endif

struct inputs {
  unsigned src_len;            /* file length */
  uint8_t src[SRC_MAX];
  int rd[NCALL];               /* k-th read():  <0 error, 0.. = at most that many bytes (clamped to >=1 unless at EOF) */
  int wr[NCALL];               /* k-th write(): <0 error, else at most that many bytes (>=1) */
  int err;                     /* errno of a failing call */
  unsigned chunk;              /* in_granul / request size */
  unsigned force, outfd, level, workers, decomp, smallf;
  unsigned eof_flag, out_slots, total_out_slots;
};
DECLARE_INPUTS

/* ---------------------------------------------------------------- OS model */
static unsigned src_pos, n_read, n_write;
static uint8_t sink[SRC_MAX + 8];
static unsigned sink_len, write_budget;
static int fail_seen;          /* 1 = failfx(&ispec) 2 = failfx(&ospec) 3 = failf 4 = other */
static int fail_errno;
static int sigusr2_raised, halted, threads_created;

#define read verif_read
#define write verif_write
#define isatty verif_isatty
static ssize_t verif_read(int fd, void *buf, size_t n);
static ssize_t verif_write(int fd, const void *buf, size_t n);
static int verif_isatty(int fd) { (void)fd; return 0; }

/* pthread: sequential harness, one thread; a wait means "blocked" and ends the explored path */
#define pthread_mutex_lock(m) 0
#define pthread_mutex_unlock(m) 0
#define pthread_cond_signal(c) 0
#define pthread_cond_broadcast(c) 0
#define pthread_cond_wait(c, m) (CUT(), 0)
#define pthread_join(t, r) 0
static void verif_on_create(void);
#define pthread_create(t, a, f, x) (verif_on_create(), 0)

#include "process.c"           /* the real /repo/src/process.c */

#undef read
#undef write

/* state of the shared flags at the moment the first I/O thread is started */
static bool snap_eof, snap_finish, snap_close; static unsigned snap_in, snap_out, snap_total;
static void verif_on_create(void)
{
  if (threads_created++ == 0) { snap_eof = eof; snap_finish = finish; snap_close = request_close; snap_in = in_slots; snap_out = out_slots; snap_total = total_out_slots; }
}

/* ---- main.c / signals.c / codec entry points that process.c links against ---- */
unsigned num_worker; size_t max_mem; bool decompress; unsigned bs100k = 9; bool force, keep, verbose, print_cctrs, small, ultra;
struct filespec ispec, ospec;
void *xmalloc(size_t n) { void *p = malloc(n); ASSUME(p != 0); return p; }
void info(const char *fmt, ...) { (void)fmt; }
void display(const char *fmt, ...) { (void)fmt; }
static void check_failure(void);     /* harness-specific assertions about a fatal error; the path ends afterwards */
void failf(const struct filespec *f, const char *fmt, ...) { (void)f; (void)fmt; fail_seen = 3; check_failure(); CUT(); }
void failx(int x, const char *fmt, ...) { (void)fmt; fail_seen = 4; fail_errno = x; check_failure(); CUT(); }
void failfx(const struct filespec *f, int x, const char *fmt, ...) { (void)fmt; fail_seen = (f == &ispec) ? 1 : (f == &ospec) ? 2 : 4; fail_errno = x; check_failure(); CUT(); }
void halt(void) { halted++; }
void xraise(int sig) { if (sig == SIGUSR2) sigusr2_raised++; }
struct timespec ts_now(void) { struct timespec t = { 0, 0 }; return t; }
bool ts_before(struct timespec a, struct timespec b) { (void)a; (void)b; return false; }
struct timespec ts_add_nano(struct timespec a, long n) { (void)n; return a; }
double ts_diff(struct timespec a, struct timespec b) { (void)a; (void)b; return 0; }
static const struct task no_tasks[] = { { 0, 0, 0 } };
const struct process compression = { no_tasks, 0, 0, 0, 0, 0 };
const struct process expansion = { no_tasks, 0, 0, 0, 0, 0 };

static ssize_t verif_read(int fd, void *buf, size_t n)
{
  unsigned k = n_read++, avail = IN.src_len - src_pos, got;
  (void)fd;
  if (n == 0) return 0;                               /* POSIX: a zero-length read returns 0 */
  if (k >= NCALL) CUT();
  if (IN.rd[k] < 0) { errno = IN.err; return -1; }
  if (avail == 0) return 0;                            /* end of file */
  got = (unsigned)IN.rd[k]; if (got < 1) got = 1;      /* a blocking read returns at least one byte */
  if (got > n) got = (unsigned)n;
  if (got > avail) got = avail;
  memcpy(buf, IN.src + src_pos, got);
  src_pos += got;
  return (ssize_t)got;
}

static ssize_t verif_write(int fd, const void *buf, size_t n)
{
  unsigned k = n_write++, put;
  (void)fd;
  if (n == 0) return 0;                               /* POSIX: a zero-length write returns 0 */
  PROP(sink_len + n <= write_budget, "write() is never asked for more bytes than remain to be written (no over-read after a short write)");
  if (k >= NCALL) CUT();
  if (IN.wr[k] < 0) { errno = IN.err; return -1; }
  put = (unsigned)IN.wr[k]; if (put < 1) put = 1;      /* a successful write transfers at least one byte */
  if (put > n) put = (unsigned)n;
  if (sink_len + put > sizeof sink) CUT();
  memcpy(sink + sink_len, buf, put);
  sink_len += put;
  return (ssize_t)put;
}

static void os_init(void)
{
  ASSUME(IN.src_len <= SRC_MAX);
  src_pos = 0; n_read = 0; n_write = 0; sink_len = 0; fail_seen = 0; fail_errno = 0; write_budget = IN.src_len;
  sigusr2_raised = 0; halted = 0; threads_created = 0;
  ispec.fd = 0; ispec.total = 0; ispec.size = 0; ispec.sep = ""; ispec.fmt = "stdin";
  ospec.fd = 1; ospec.total = 0; ospec.sep = ""; ospec.fmt = "stdout";
  ASSUME(IN.err > 0 && IN.err < 200);
}

static int H;                        /* which harness runs */
enum { H_XREAD = 1, H_XWRITE, H_SNIFF, H_OTHER };
static bool any_read_error(void);
static bool any_write_error(void);
static bool sniff_is_bz(void);

static void check_failure(void)
{
  if (H == H_XREAD) {
    WITNESS("read_error_reported");
    PROP(fail_seen == 1 && fail_errno == IN.err, "a failing read() is reported with its errno on the input file");
    PROP(any_read_error(), "xread fails only when read() failed");
  } else if (H == H_XWRITE) {
    WITNESS("write_error_reported");
    PROP(fail_seen == 2 && fail_errno == IN.err, "a failing write() is reported with its errno on the output file");
    PROP(any_write_error(), "xwrite fails only when write() failed");
  } else if (H == H_SNIFF) {
    if (fail_seen == 1) { WITNESS("sniff_read_error"); PROP(any_read_error(), "read failure while sniffing"); }
    else if (fail_seen == 2) { WITNESS("sniff_write_error"); PROP(any_write_error() && !sniff_is_bz() && force && ospec.fd == 1, "write failure only while passing the sniffed bytes through"); }
    else {
      WITNESS("rejected_not_bzip2");
      PROP(fail_seen == 3, "rejection is reported on the input file");
      PROP(!sniff_is_bz() && !(force && ospec.fd == 1), "only non-bzip2 input that is not being copied (-cdf) is rejected");
      PROP(sink_len == 0, "nothing is written for rejected input");
    }
  } else {
    PROP(0, "no fatal error is expected in this query");
  }
}

static bool any_write_error(void) { unsigned k; for (k = 0; k < NCALL; k++) if (k < n_write && IN.wr[k] < 0) return true; return false; }
static bool sniff_is_bz(void) { return IN.src_len >= 4 && IN.src[0] == 'B' && IN.src[1] == 'Z' && IN.src[2] == 'h' && IN.src[3] >= '1' && IN.src[3] <= '9'; }
static bool any_read_error(void) { unsigned k; for (k = 0; k < NCALL; k++) if (k < n_read && IN.rd[k] < 0) return true; return false; }

/* ---------------------------------------------------------------- xread: chunks are always filled (C03) */
void h_xread(void)
{
  LOAD_INPUTS();
  uint8_t buf[SRC_MAX + 1];
  unsigned start, chunk = IN.chunk, i;
  os_init();
  ASSUME(chunk >= 1 && chunk <= 8);
  ASSUME(IN.eof_flag <= IN.src_len);
  src_pos = IN.eof_flag;                       /* arbitrary starting offset in the file */
  start = src_pos;
  size_t vacant = chunk;
  fail_seen = 0; H = H_XREAD;
  RUN_CUT(xread(buf, &vacant));
  if (fail_seen) return;                       /* (replay build only; CBMC paths end in the failure stub) */
  PROP(!any_read_error(), "a failing read() never returns control to the caller (C21)");
  unsigned got = chunk - (unsigned)vacant;
  if (vacant == 0 && n_read >= 3) WITNESS("chunk_filled_from_fragments");
  if (vacant > 0) WITNESS("short_chunk_at_eof");
  PROP(vacant <= chunk, "vacant never grows");
  PROP(vacant == 0 || src_pos == IN.src_len, "a chunk is short only at end of file, however read() fragments the input");
  PROP(src_pos == start + got, "exactly the bytes delivered by read() are accounted");
  for (i = 0; i < 8; i++) PROP(i >= got || buf[i] == IN.src[start + i], "chunk holds the file bytes in order");
  PROP(ispec.total == got, "input byte counter equals the bytes read");
}

/* ---------------------------------------------------------------- xwrite: short writes (C03), errors (C21), -t (C09) */
void h_xwrite(void)
{
  LOAD_INPUTS();
  unsigned n = IN.chunk, i;
  os_init();
  ASSUME(n <= 8 && n <= IN.src_len);
  ospec.fd = (IN.outfd & 1) ? -1 : 1;
  fail_seen = 0; H = H_XWRITE; write_budget = n;
  RUN_CUT(xwrite(IN.src, n));
  if (fail_seen) return;
  for (i = 0; i < NCALL; i++) PROP(i >= n_write || IN.wr[i] >= 0, "a failing write() never returns control to the caller (C21)");
  PROP(ospec.total == n, "output byte counter counts the whole buffer (also when discarding)");
  if (ospec.fd == -1) { WITNESS("discarding"); PROP(n_write == 0 && sink_len == 0, "-t writes nothing"); return; }
  if (n_write >= 3) WITNESS("buffer_written_in_fragments");
  PROP(sink_len == n, "every byte of the buffer reaches write() exactly once, however short the writes");
  for (i = 0; i < 8; i++) PROP(i >= n || sink[i] == IN.src[i], "bytes are written in order");
  PROP(n > 0 || n_write == 0, "empty buffers are not written");
}

/* ---------------------------------------------------------------- work(): format sniffing (C19, C07) */
void h_sniff(void)
{
  LOAD_INPUTS();
  unsigned i;
  os_init();
  decompress = true; verbose = false;
  force = IN.force & 1; num_worker = 1; small = false;
  ospec.fd = (IN.outfd % 3 == 0) ? 1 : (IN.outfd % 3 == 1) ? 7 : -1;     /* stdout, a file, discard */
  bs100k = 9;
  process = 0; H = H_SNIFF;
  /* operand kind: stdin or an opened FILE operand whose fstat() size is arbitrary (FIFOs and devices report 0);
     stale state of a previous operand in the same process */
  ispec.fd = (IN.level & 1) ? 0 : 5; ispec.size = IN.workers;
  eof = true; finish = true; request_close = true;
  RUN_CUT(work());
  if (fail_seen) return;
  PROP(!any_read_error() && !any_write_error(), "a failing read()/write() never returns control (C21)");
  bool is_bz = sniff_is_bz();
  if (is_bz) {
    WITNESS("bzip2_header");
    PROP(fail_seen == 0 && process == &expansion, "input starting with BZh1..BZh9 is decompressed");
    PROP(bs100k == (unsigned)(IN.src[3] - '0'), "level digit taken from the header");
    PROP(sink_len == 0, "nothing is copied for bzip2 input");
    PROP(src_pos == 4, "exactly the 4 header bytes are consumed before the decompressor starts");
  } else if (force && ospec.fd == 1) {
    WITNESS("copy_through");
    if (IN.src_len < 4) WITNESS("copy_through_short_input");
    unsigned hdr = IN.src_len < 4 ? IN.src_len : 4;
    PROP(process != &expansion && process != &compression && in_granul == 65536, "copy pipeline is started");
    PROP(sink_len == hdr, "the sniffed bytes are written first, all of them, once");
    for (i = 0; i < 4; i++) PROP(i >= hdr || sink[i] == IN.src[i], "sniffed bytes are passed through unchanged");
    PROP(threads_created == 2 && halted == 1, "reader and writer threads are started and awaited, whatever the operand's reported size (C19)");
    PROP(!snap_eof && !snap_finish && !snap_close && snap_in == 2 && snap_out == 2 && snap_total == 2, "the copy threads start from a clean state (nothing left over from a previous operand)");
  } else {
    PROP(0, "non-bzip2 input that is not copied must be rejected (work() returned normally)");
  }
}

/* ---------------------------------------------------------------- set_memory_constraints(): C13, C03 */
void h_memconstraints(void)
{
  LOAD_INPUTS();
  os_init(); H = H_OTHER;
  ASSUME(IN.workers >= 1 && IN.workers <= 65535);
  ASSUME(IN.level >= 1 && IN.level <= 9);
  num_worker = IN.workers; bs100k = IN.level; decompress = IN.decomp & 1; small = IN.smallf & 1;
  set_memory_constraints();
  if (!decompress) WITNESS("compress_config"); else WITNESS("decompress_config");
  /* loose envelope: slots linear in the worker count, buffers bounded by a constant (C13) */
  PROP(total_in_slots >= 1 && total_in_slots <= 16u * num_worker + 2u, "input slots are bounded by a linear function of the worker count");
  PROP(total_out_slots >= 1 && total_out_slots <= 16u * num_worker + 2u, "output slots are bounded by a linear function of the worker count");
  PROP(in_granul >= 4 && in_granul <= (1u << 20) && in_granul % 4 == 0, "input buffer size is a bounded constant, a whole number of 32-bit words");
  if (!decompress) {
    PROP(in_granul == IN.level * 100000u, "compression reads the input in pieces of exactly one block capacity (C03/C04)");
    PROP(total_out_slots > 2, "room beyond the transmit reservation");
  } else {
    PROP(out_granul >= 1 && out_granul <= 1u << 20, "output buffer size is a bounded constant");
  }
}

/* ---------------------------------------------------------------- copy pipeline, reader then writer run to completion (C19) */
void h_copy_seq(void)
{
  LOAD_INPUTS();
  static const struct task null_task = { 0, 0, 0 };
  static const struct process pp = { &null_task, 0, 0, copy_terminate, copy_on_input_avail, copy_on_write_complete };
  unsigned i;
  os_init(); H = H_OTHER;
#ifndef CHUNK
#define CHUNK 2
#endif
  ASSUME(IN.chunk == CHUNK);                    /* buffer size concrete per query */
  for (i = 0; i < NCALL; i++) ASSUME(IN.rd[i] >= 0 && IN.wr[i] >= 0);     /* failures are the subject of h_xread/h_xwrite */
  eof = false; in_slots = 2; out_slots = 2; total_out_slots = 2; in_granul = CHUNK;
  process = &pp; request_close = false; finish = false;
  deque_init(output_q, out_slots);
  bool done = false;
  RUN_CUT((source_thread_proc(), done = true));
  if (!done) return;                              /* reader blocked waiting for a slot: more than 2 chunks, outside this query */
  PROP(eof, "reader announces end of input");
  PROP(src_pos == IN.src_len, "reader consumed the whole input");
  finish = true;
  done = false;
  RUN_CUT((sink_thread_proc(), done = true));
  PROP(done, "writer drains the queue and terminates");
  if (IN.src_len == 0) WITNESS("empty_input");
  if (IN.src_len > CHUNK) WITNESS("two_chunks");
  if (IN.src_len == CHUNK) WITNESS("input_exactly_one_chunk");
  PROP(sink_len == IN.src_len, "copied length equals input length");
  for (i = 0; i < SRC_MAX; i++) PROP(i >= sink_len || sink[i] == IN.src[i], "copied bytes equal input bytes in order");
  PROP(out_slots == total_out_slots && in_slots == 2, "all I/O slots are returned");
  PROP(sigusr2_raised >= 1, "completion is signalled once everything is written");
  PROP(empty(output_q), "output queue is empty at the end");
}

/* ---------------------------------------------------------------- copy_terminate never signals early */
void h_copy_terminate(void)
{
  LOAD_INPUTS();
  os_init(); H = H_OTHER;
  eof = IN.eof_flag & 1; out_slots = IN.out_slots; total_out_slots = IN.total_out_slots;
  bool r = copy_terminate();
  if (sigusr2_raised) WITNESS("completion_signalled");
  PROP(!r, "copy pseudo-process never reports finished to workers");
  PROP((sigusr2_raised == 1) == (eof && out_slots == total_out_slots) && sigusr2_raised <= 1,
       "completion is signalled exactly when input ended and every buffer was written");
}

HARNESS_MAIN(REPLAY_ENTRY)

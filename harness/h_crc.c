/* CRC table lemma (used by C01, C02, C04, C15): src/crctab.c crc_table[i] is the CRC-32/BZIP2
 * (polynomial 0x04C11DB7, MSB first) remainder of byte i.  With it, the table-driven update used by
 * the reference models equals the bitwise definition. */
#include "verif.h"
#include "common.h"
extern uint32_t crc_table[256];

struct inputs { unsigned i; uint32_t crc; unsigned byte; };
DECLARE_INPUTS

static uint32_t bitwise(uint32_t crc, uint8_t x)
{
  int k;
  crc ^= (uint32_t)x << 24;
  for (k = 0; k < 8; k++)
    crc = (crc & 0x80000000u) ? (crc << 1) ^ 0x04C11DB7u : (crc << 1);
  return crc;
}

void h_crc_table(void)
{
  LOAD_INPUTS();
  ASSUME(IN.i < 256);
  if (IN.i == 255) WITNESS("last_entry");
  if (IN.i == 1) WITNESS("entry_one");
  PROP(crc_table[IN.i] == bitwise(0, (uint8_t)IN.i), "crc_table entry equals the bitwise CRC-32/BZIP2 remainder");
}

void h_crc_step(void)
{
  LOAD_INPUTS();
  uint8_t x = (uint8_t)IN.byte;
  uint32_t crc = IN.crc;
  WITNESS("step");
  if (crc >> 31) WITNESS("step_msb_set");
  PROP(((crc << 8) ^ crc_table[(crc >> 24) ^ x]) == bitwise(crc, x), "table-driven CRC update equals the bitwise definition");
}

HARNESS_MAIN(REPLAY_ENTRY)

/* C02: "2-6 prefix tables that are all complete with code lengths 1-20 (including tables no group uses)".
 * Real code: src/encode.c generate_prefix_code(), the tail that renumbers the tables and, for a block whose groups
 * all use one table, writes the dummy second table (encode.c "If there is only one prefix tree ...").
 *
 * h_dummy_table: alphabet size `as` symbolic over its whole range 3..258.  The clustering passes are skipped
 *   (cluster_factor = 0; the selector list they would leave is the pre-state: every group uses table 0) and the
 *   bodies of generate_initial_trees() / assign_codes() are cut (their result does not reach the dummy table; the
 *   codes assign_codes() writes are the subject of assign_opt_*).  Checked: two tables are announced, the table
 *   numbering maps are consistent, and the dummy table's lengths are within 1..20 and Kraft-complete.
 */
#include "verif.h"
#include "encode.c"            /* the real /repo/src/encode.c */

#ifndef NM
#define NM 2                   /* MTF symbols in the block (concrete per query; <= 150 keeps a single table) */
#endif

struct inputs { unsigned as; unsigned mtf0; };
DECLARE_INPUTS

int32_t divbwt(uint8_t *T, int32_t *SA, int32_t *bucket, int32_t n) { (void)T; (void)SA; (void)bucket; (void)n; return 0; }

void h_dummy_table(void)
{
  LOAD_INPUTS();
  unsigned as = IN.as, v, ngroups = (NM + GROUP_SIZE - 1) / GROUP_SIZE, g;
  ASSUME(as >= 3 && as <= MAX_ALPHA_SIZE);                       /* EOB = as-1 is 2..257 */
  static struct { struct encoder_state e; uint16_t room[(NM + GROUP_SIZE - 1) / GROUP_SIZE * GROUP_SIZE + 8]; } U;   /* room = the flexible SA[] */
  struct encoder_state *s = &U.e;                                /* zero-initialised */
  uint16_t *mtfv = (void *)s->SA;
  s->nmtf = NM; s->cluster_factor = 0; s->max_block_size = 64;
  for (v = 0; v + 1 < NM; v++) mtfv[v] = 0;
  ASSUME(IN.mtf0 < as - 1); mtfv[0] = (uint16_t)IN.mtf0;
  mtfv[NM - 1] = (uint16_t)(as - 1);
  for (g = 0; g < ngroups; g++) s->u.s.selector[g] = 0;         /* what the clustering pass leaves with one table */
  s->u.s.selector[ngroups] = MAX_TREES;
  s->u.s.tmap_new2old[0] = 7; s->u.s.tmap_new2old[1] = 7; s->u.s.tmap_old2new[0] = 7; s->u.s.tmap_old2new[1] = 7;

  (void)generate_prefix_code(s);

  PROP(s->u.s.num_selectors == ngroups, "one selector per group of 50 symbols");
  PROP(s->u.s.num_trees == 2, "a block whose groups all use one table announces two tables (bzip2 forbids one)");
  PROP(s->u.s.tmap_new2old[0] == 0 && s->u.s.tmap_old2new[0] == 0, "the used table is transmitted first");
  unsigned t = s->u.s.tmap_new2old[1];
  PROP(t == 1 && s->u.s.tmap_old2new[1] == 1, "the dummy table is a different table slot, transmitted second");
  for (v = NM; v < ngroups * GROUP_SIZE; v++) PROP(mtfv[v] == as, "the last group is completed with the sentinel symbol");
  PROP(s->u.s.length[0][as] == 0 && s->u.s.code[0][as] == 0, "the sentinel symbol costs no bits");

  uint64_t kraft = 0; unsigned lo = 99, hi = 0;
  if (t > 5) t = 5;
  for (v = 0; v < MAX_ALPHA_SIZE; v++) {
    if (v < as) {
      unsigned len = s->u.s.length[t][v];
      PROP(len >= 1 && len <= 20, "every code length of the dummy table is within 1..20");
      kraft += (uint64_t)1 << (20 - (len > 20 ? 20 : len));
      if (len < lo) lo = len;
      if (len > hi) hi = len;
    }
  }
  PROP(kraft == ((uint64_t)1 << 20), "the dummy table no group uses is a complete prefix code (Kraft sum 1)");
  if (lo == hi) WITNESS("dummy_single_length"); else WITNESS("dummy_two_lengths");
  if (as == MAX_ALPHA_SIZE) WITNESS("largest_alphabet");
  if (as == 3) WITNESS("smallest_alphabet");
}

HARNESS_MAIN(REPLAY_ENTRY)

/* C05 / C07 / C09 / C10 / C15: block-level checks of the decompression scheduler, src/expand.c.
 * The codec (parse/scan/retrieve/decode/emit) is replaced by contract stubs; do_reorder(), do_parse(),
 * attach(), detach(), advance(), init() and the queue macros are real.
 *
 *  h_reorder_checks : do_reorder() on one finished output block against one parsed header, all fields
 *                     symbolic: the block reaches the writer iff it sits at the expected position, fits
 *                     the declared size, carries no decoder error and its CRC equals the stored one (for
 *                     ALL CRC values, C15); otherwise failf() is reached (or, for a block found by the
 *                     scanner before the expected position, it is dropped silently, C10).
 *  h_parse_finish   : do_parse() when the parser reports the end of input, with the real
 *                     attach()/detach()/advance(): the run fails with "unexpected end of file" exactly
 *                     when stream bits were taken from the zero padding added after the last byte of the
 *                     file (C05/C07), whatever the garbage count and wherever the parser stopped (C09).
 */
#include "verif.h"
#include <string.h>
#include <stdlib.h>
#ifdef REPLAY
#include <setjmp.h>
static jmp_buf cut_jmp;
#define CUT() longjmp(cut_jmp, 1)
#else
#define CUT() __CPROVER_assume(0)
#endif

struct inputs {
  /* reorder */
  uint64_t ob_major, ob_minor, hd_major, hd_minor;
  uint32_t ob_crc, hd_crc, ob_blk_sz;
  int ob_status, hd_level;
  unsigned parsing_done;
  /* parse finish */
  unsigned nwords, missing, stop_live, garbage, start_off, start_live;
};
DECLARE_INPUTS

static bool fail_expected, fail_seen;
static unsigned written, slots_back, released;

#include "expand.c"            /* the real /repo/src/expand.c */

/* ---- globals normally in process.c / main.c ---- */
bool eof; unsigned work_units, in_slots, out_slots, total_work_units, total_in_slots, total_out_slots; size_t in_granul, out_granul;
unsigned num_worker; size_t max_mem; bool decompress; unsigned bs100k = 9; bool force, keep, verbose, print_cctrs, small, ultra;
struct filespec ispec, ospec;
void *xmalloc(size_t n) { void *p = malloc(n); ASSUME(p != 0); return p; }
void info(const char *fmt, ...) { (void)fmt; }
void failf(const struct filespec *f, const char *fmt, ...)
{
  (void)f; (void)fmt; fail_seen = true;
  WITNESS("fatal_error_reported");
  PROP(fail_expected, "a fatal data error is reported only for input that is really invalid");
  CUT();
}
void sched_lock(void) {}
void sched_unlock(void) {}
void source_close(void) {}
void source_release_buffer(void *b) { (void)b; released++; }
void sink_write_buffer(void *b, size_t size, size_t weight) { (void)b; (void)size; (void)weight; written++; }
/* bag with correct head extraction (order inside the queues is irrelevant here; real helpers: heap_ops) */
void up_heap(void *root, unsigned size) { (void)root; (void)size; }
void down_heap(void *vroot, unsigned size) { void **root = vroot; void *t = root[0]; root[0] = root[size]; root[size] = t; }

/* ---- codec stubs ---- */
uint32_t crc_table[256];
void parser_init(struct parser_state *ps, int bs, int sm) { ps->state = 0; ps->bs100k = bs; ps->computed_crc = 0; ps->stream_mode = sm; }
int parse(struct parser_state *ps, struct header *hd, struct bitstream *bs, unsigned *garbage)
{
  (void)ps; (void)hd;
  /* the parser ran to the end of the available input and reports FINISH */
  bs->data = bs->limit; bs->live = IN.stop_live; bs->buff = 0;
  *garbage = IN.garbage;
  return FINISH;
}
int scan(struct bitstream *bs, unsigned skip) { (void)bs; (void)skip; return MORE; }
void decoder_init(struct decoder_state *ds) { ds->internal_state = 0; ds->tt = 0; }
void decoder_free(struct decoder_state *ds) { (void)ds; }
int retrieve(struct decoder_state *ds, struct bitstream *bs) { (void)ds; (void)bs; return MORE; }
void decode(struct decoder_state *ds) { (void)ds; }
int emit(struct decoder_state *ds, void *buf, size_t *sz) { (void)ds; (void)buf; (void)sz; return OK; }

/* ================================================================== do_reorder(): block-level checks */
void h_reorder_checks(void)
{
  LOAD_INPUTS();
  struct out_blk *ob;
  struct head_blk hb;
  num_worker = 2; work_units = 2; in_slots = 8; out_slots = 4; total_out_slots = 8; in_granul = 16;
  bs100k = 9;
  init();
  parsing_done = IN.parsing_done & 1;
  ob = xmalloc(sizeof(struct out_blk) + 8);
  ob->base.major = IN.ob_major; ob->base.minor = IN.ob_minor; ob->size = 8; ob->crc = IN.ob_crc; ob->blk_sz = IN.ob_blk_sz;
  ob->status = IN.ob_status; ob->end_offset = 1;
  ASSUME(IN.ob_status >= OK && IN.ob_status <= ERR_EOF && IN.ob_status != FINISH);
  ASSUME(IN.hd_level >= 1 && IN.hd_level <= 9);
  hb.base.major = IN.hd_major; hb.base.minor = IN.hd_minor; hb.hdr.crc = IN.hd_crc; hb.hdr.bs100k = IN.hd_level;
  enqueue(reord_q, ob);
  push(order_q, hb);
  ASSUME(can_reorder());                  /* block position <= expected position */
  bool bogus = pos_lt(ob->base, hb.base);
  bool too_big = IN.ob_blk_sz > (uint32_t)IN.hd_level * 100000u;
  bool more = !too_big && IN.ob_status == MORE;
  bool good = !too_big && IN.ob_status == OK && IN.ob_crc == IN.hd_crc;
  fail_expected = !bogus && !more && !good;
  fail_seen = false; written = 0;
  unsigned slots = out_slots;
#ifdef REPLAY
  if (!setjmp(cut_jmp))
#endif
  do_reorder();
  if (fail_seen) return;
  PROP(!fail_expected, "oversized blocks, decoder errors and block CRC mismatches (any CRC value) are fatal (C05/C15)");
  if (bogus) {
    WITNESS("bogus_candidate_dropped");
    PROP(written == 0 && out_slots == slots + 1 && size(order_q) == 1, "a block found before the expected position never reaches the output (C10)");
  } else if (more) {
    WITNESS("partial_block_written");
    PROP(written == 1 && size(order_q) == 1 && dq_get(order_q, 0).base.minor == IN.hd_minor + 1, "a partially emitted block is written and the next part is expected");
  } else {
    WITNESS("block_accepted");
    PROP(written == 1 && size(order_q) == 0, "a block that passed all checks is handed to the writer once");
  }
}

/* ================================================================== do_parse(): end of input inside the padding */
void h_parse_finish(void)
{
  LOAD_INPUTS();
  static uint32_t words[4];
  unsigned S = IN.nwords, missing = IN.missing;
  ASSUME(S >= 1 && S <= 2 && missing <= 3);
  ASSUME(IN.stop_live <= 15);             /* fewer than 16 bits were left when the parser gave up */
  ASSUME(IN.garbage == 0 || IN.garbage == 16 || IN.garbage == 32);
  num_worker = 2; work_units = 2; in_slots = 8; out_slots = 4; total_out_slots = 8; in_granul = 16;
  bs100k = 9;
  init();
  /* the reader delivered one last block: S words, of which the last `missing` bytes are zero padding */
  eof = false;
  on_input_avail(words, 4 * S - missing);
  eof = true;
  PROP(tail_offs == S && eof_missing == missing, "input block accounted in 32-bit words with its padding");
  /* the parser stands somewhere in that block */
  ASSUME(IN.start_off < S && IN.start_live == 0);
  parser_bs = bits_init(IN.start_off);
  ASSUME(can_parse());
  /* reference: the stream grammar ended `garbage` bits before the parser's stop position, which is
     stop_live bits before the end of the padded block; the file itself ends 8*missing bits earlier */
  unsigned end_of_stream = 32u * S - IN.stop_live - IN.garbage;     /* may be "negative" only when garbage exceeds the data */
  ASSUME(IN.stop_live + IN.garbage <= 32u * S);
  fail_expected = end_of_stream > 32u * S - 8u * missing;
  fail_seen = false;
#ifdef REPLAY
  if (!setjmp(cut_jmp))
#endif
  do_parse();
  if (fail_seen) return;
  if (missing > 0) WITNESS("end_inside_a_padded_word_accepted");
  if (IN.garbage == 32) WITNESS("garbage_word_given_back");
  PROP(!fail_expected, "input that ends inside its last stream (stream bits taken from the padding) is rejected (C05/C07)");
  PROP(parsing_done && parse_token && work_units == 2 && empty(input_q), "the parser finishes, gives its work unit back and releases the input");
}

HARNESS_MAIN(REPLAY_ENTRY)

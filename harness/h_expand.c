/* C05 / C07 / C09 / C10 / C15: block-level checks of the decompression scheduler, src/expand.c.
 * The codec (parse/scan/retrieve/decode/emit) is replaced by contract stubs; do_reorder(), do_parse(),
 * attach(), detach(), advance(), init() and the queue macros are real.
 *
 *  h_reorder_checks : do_reorder() on one finished output block against one parsed header, all fields
 *                     symbolic: the block reaches the writer iff it sits at the expected position, fits
 *                     the declared size, carries no decoder error and its CRC equals the stored one (for
 *                     ALL CRC values, C15); otherwise failf() is reached (or, for a block found by the
 *                     scanner before the expected position, it is dropped silently, C10).
 *  h_parse_finish   : do_parse() when the parser reports the end of input, with the real
 *                     attach()/detach()/advance(): the run fails with "unexpected end of file" exactly
 *                     when stream bits were taken from the zero padding added after the last byte of the
 *                     file (C05/C07), whatever the garbage count and wherever the parser stopped (C09).
 */
#include "verif.h"
#include <string.h>
#include <stdlib.h>
#ifdef REPLAY
#include <setjmp.h>
static jmp_buf cut_jmp;
#define CUT() longjmp(cut_jmp, 1)
#else
#define CUT() __CPROVER_assume(0)
#endif

struct inputs {
  /* positions for the speculative-discovery steps: word index (0..S) and live bits of the parser and of a candidate */
  unsigned p_word, p_live, c_word, c_live, scan_ok, start_word;
  unsigned u_word[3], u_live[3], u_complete[3], n_unord;
  unsigned granul;
  /* reorder */
  uint64_t ob_major, ob_minor, hd_major, hd_minor;
  uint32_t ob_crc, hd_crc, ob_blk_sz;
  int ob_status, hd_level;
  unsigned parsing_done;
  /* parse finish */
  unsigned nwords, missing, stop_live, garbage, start_off, start_live;
};
DECLARE_INPUTS

static bool fail_expected, fail_seen;
static unsigned written, slots_back, released;

/* free() is intercepted so that the harness can tell "released" from "kept" records (nothing is really freed) */
#define NFREED 16
static void *freed[NFREED]; static unsigned nfreed;
static void verif_free(void *p) { if (p && nfreed < NFREED) freed[nfreed++] = p; }
static bool was_freed(void *p) { unsigned i; for (i = 0; i < NFREED; i++) if (i < nfreed && freed[i] == p) return true; return false; }
#define free(p) verif_free(p)
#include "expand.c"            /* the real /repo/src/expand.c */
#undef free

/* ---- globals normally in process.c / main.c ---- */
#ifndef REAL_HEAP
bool eof; unsigned work_units, in_slots, out_slots, total_work_units, total_in_slots, total_out_slots; size_t in_granul, out_granul;
#endif
unsigned num_worker; size_t max_mem; bool decompress; unsigned bs100k = 9; bool force, keep, verbose, print_cctrs, small, ultra;
struct filespec ispec, ospec;
void *xmalloc(size_t n) { void *p = malloc(n); ASSUME(p != 0); return p; }
void info(const char *fmt, ...) { (void)fmt; }
void failf(const struct filespec *f, const char *fmt, ...)
{
  (void)f; (void)fmt; fail_seen = true;
  WITNESS("fatal_error_reported");
  PROP(fail_expected, "a fatal data error is reported only for input that is really invalid");
  CUT();
}
#ifdef REAL_HEAP
/* further symbols the separately compiled process.c unit refers to (never reached from the heap helpers) */
#include <time.h>
void display(const char *fmt, ...) { (void)fmt; }
void failx(int x, const char *fmt, ...) { (void)x; (void)fmt; CUT(); }
void failfx(const struct filespec *f, int x, const char *fmt, ...) { (void)f; (void)x; (void)fmt; CUT(); }
void halt(void) {}
void xraise(int sig) { (void)sig; }
struct timespec ts_now(void) { struct timespec t = { 0, 0 }; return t; }
bool ts_before(struct timespec a, struct timespec b) { (void)a; (void)b; return false; }
struct timespec ts_add_nano(struct timespec a, long n) { (void)n; return a; }
double ts_diff(struct timespec a, struct timespec b) { (void)a; (void)b; return 0; }
const struct process compression = { 0, 0, 0, 0, 0, 0 };
#endif
void sched_lock(void) {}
void sched_unlock(void) {}
void source_close(void) {}
void source_release_buffer(void *b) { (void)b; released++; }
void sink_write_buffer(void *b, size_t size, size_t weight) { (void)b; (void)size; (void)weight; written++; }
#ifndef REAL_HEAP
/* bag with correct head extraction (order inside the queues is irrelevant here; real helpers: heap_ops) */
void up_heap(void *root, unsigned size) { (void)root; (void)size; }
void down_heap(void *vroot, unsigned size) { void **root = vroot; void *t = root[0]; root[0] = root[size]; root[size] = t; }
#endif

/* ---- codec stubs ---- */
uint32_t crc_table[256];
void parser_init(struct parser_state *ps, int bs, int sm) { ps->state = 0; ps->bs100k = bs; ps->computed_crc = 0; ps->stream_mode = sm; }
static int parse_mode;            /* 0: FINISH at end of input (h_parse_finish); 1: OK with a header at a symbolic position */
static unsigned stub_word, stub_live; static int stub_rv; static unsigned scan_skip_seen;
static void move_to(struct bitstream *bs, unsigned word, unsigned live)   /* leave the stream `live` bits before word index `word` of its block */
{
  const uint32_t *base = bs->block ? (const uint32_t *)bs->block->buffer : bs->data;
  bs->data = base + word; bs->live = live; bs->buff = 0;
}
int parse(struct parser_state *ps, struct header *hd, struct bitstream *bs, unsigned *garbage)
{
  (void)ps;
  if (parse_mode == 1) { move_to(bs, stub_word, stub_live); hd->crc = 0xC0FFEE; hd->bs100k = 9; return OK; }
  /* the parser ran to the end of the available input and reports FINISH */
  bs->data = bs->limit; bs->live = IN.stop_live; bs->buff = 0;
  *garbage = IN.garbage;
  return FINISH;
}
int scan(struct bitstream *bs, unsigned skip) { scan_skip_seen = skip; move_to(bs, stub_word, stub_live); return stub_rv; }
void decoder_init(struct decoder_state *ds) { ds->internal_state = 0; ds->tt = 0; }
void decoder_free(struct decoder_state *ds) { (void)ds; }
int retrieve(struct decoder_state *ds, struct bitstream *bs) { (void)ds; (void)bs; return MORE; }
void decode(struct decoder_state *ds) { (void)ds; }
int emit(struct decoder_state *ds, void *buf, size_t *sz) { (void)ds; (void)buf; (void)sz; return OK; }

/* ================================================================== do_reorder(): block-level checks */
void h_reorder_checks(void)
{
  LOAD_INPUTS();
  struct out_blk *ob;
  struct head_blk hb;
  num_worker = 2; work_units = 2; in_slots = 8; out_slots = 4; total_out_slots = 8; in_granul = 16;
  bs100k = 9;
  init();
  parsing_done = IN.parsing_done & 1;
  ospec.fd = (IN.parsing_done & 2) ? -1 : 1;           /* -t (discard) or a real output: the block takes the same route */
  ob = xmalloc(sizeof(struct out_blk) + 8);
  ob->base.major = IN.ob_major; ob->base.minor = IN.ob_minor; ob->size = 8; ob->crc = IN.ob_crc; ob->blk_sz = IN.ob_blk_sz;
  ob->status = IN.ob_status; ob->end_offset = 1;
  ASSUME(IN.ob_status >= OK && IN.ob_status <= ERR_EOF && IN.ob_status != FINISH);
  ASSUME(IN.hd_level >= 1 && IN.hd_level <= 9);
  hb.base.major = IN.hd_major; hb.base.minor = IN.hd_minor; hb.hdr.crc = IN.hd_crc; hb.hdr.bs100k = IN.hd_level;
  enqueue(reord_q, ob);
  push(order_q, hb);
  ASSUME(can_reorder());                  /* block position <= expected position */
  bool bogus = pos_lt(ob->base, hb.base);
  bool too_big = IN.ob_blk_sz > (uint32_t)IN.hd_level * 100000u;
  bool more = !too_big && IN.ob_status == MORE;
  bool good = !too_big && IN.ob_status == OK && IN.ob_crc == IN.hd_crc;
  fail_expected = !bogus && !more && !good;
  fail_seen = false; written = 0;
  unsigned slots = out_slots;
#ifdef REPLAY
  if (!setjmp(cut_jmp))
#endif
  do_reorder();
  if (fail_seen) return;
  PROP(!fail_expected, "oversized blocks, decoder errors and block CRC mismatches (any CRC value) are fatal (C05/C15)");
  if (bogus) {
    WITNESS("bogus_candidate_dropped");
    PROP(written == 0 && out_slots == slots + 1 && size(order_q) == 1, "a block found before the expected position never reaches the output (C10)");
  } else if (more) {
    WITNESS("partial_block_written");
    PROP(written == 1 && size(order_q) == 1 && dq_get(order_q, 0).base.minor == IN.hd_minor + 1, "a partially emitted block is written and the next part is expected");
  } else {
    WITNESS("block_accepted");
    PROP(written == 1 && size(order_q) == 0, "a block that passed all checks is handed to the writer once");
  }
}

/* ================================================================== do_parse(): end of input inside the padding */
void h_parse_finish(void)
{
  LOAD_INPUTS();
  static uint32_t words[4];
  unsigned S = IN.nwords, missing = IN.missing;
  ASSUME(S >= 1 && S <= 2 && missing <= 3);
  ASSUME(IN.stop_live <= 15);             /* fewer than 16 bits were left when the parser gave up */
  ASSUME(IN.garbage == 0 || IN.garbage == 16 || IN.garbage == 32);
  num_worker = 2; work_units = 2; in_slots = 8; out_slots = 4; total_out_slots = 8; in_granul = 16;
  bs100k = 9;
  init();
  /* the reader delivered one last block: S words, of which the last `missing` bytes are zero padding */
  eof = false;
  on_input_avail(words, 4 * S - missing);
  eof = true;
  PROP(tail_offs == S && eof_missing == missing, "input block accounted in 32-bit words with its padding");
  /* the parser stands somewhere in that block */
  ASSUME(IN.start_off < S && IN.start_live == 0);
  parser_bs = bits_init(IN.start_off);
  ASSUME(can_parse());
  /* reference: the stream grammar ended `garbage` bits before the parser's stop position, which is
     stop_live bits before the end of the padded block; the file itself ends 8*missing bits earlier */
  unsigned end_of_stream = 32u * S - IN.stop_live - IN.garbage;     /* may be "negative" only when garbage exceeds the data */
  ASSUME(IN.stop_live + IN.garbage <= 32u * S);
  fail_expected = end_of_stream > 32u * S - 8u * missing;
  fail_seen = false;
#ifdef REPLAY
  if (!setjmp(cut_jmp))
#endif
  do_parse();
  if (fail_seen) return;
  if (missing > 0) WITNESS("end_inside_a_padded_word_accepted");
  if (IN.garbage == 32) WITNESS("garbage_word_given_back");
  PROP(!fail_expected, "input that ends inside its last stream (stream bits taken from the padding) is rejected (C05/C07)");
  PROP(parsing_done && parse_token && work_units == 2 && empty(input_q), "the parser finishes, gives its work unit back and releases the input");
}

/* ================================================================== positions */
static struct position pos_of(unsigned word, unsigned live)    /* position of the bit `live` bits before word index `word` (reference formula) */
{
  struct position p;
  uint64_t bit = 32ull * word - live, w = bit / 32, per = in_granul / 4;
  p.major = w / per; p.minor = ((w % per) << 32) + ((bit % 32) << 27);
  return p;
}

/* detach(): the position it reports identifies the absolute bit position (injective, order-preserving) (C09/C10) */
void h_detach_pos(void)
{
  LOAD_INPUTS();
  static uint32_t words[8];
  struct in_blk *blk = xmalloc(sizeof *blk);
  struct bitstream bs;
  unsigned off = IN.start_word, S = IN.nwords, k = IN.c_word, L = IN.c_live;
  ASSUME(IN.granul >= 1 && IN.granul <= 4); in_granul = 4 * IN.granul;   /* words per input buffer: 1..4 */
  ASSUME(S >= 1 && S <= 4 && k <= S && off <= 8 && L <= 63 && 32u * (off + k) >= L);
  blk->buffer = words; blk->size = S; blk->ref_count = 2; blk->offset = off;
  tail_offs = off + S + (IN.p_word & 3); head_offs = 0;
  bs.block = blk; bs.data = words + k; bs.limit = words + S; bs.live = L; bs.buff = 0; bs.eof = false;
  struct detached_bitstream d = detach(bs);
  uint64_t bit = 32ull * (off + k) - L, per = in_granul / 4;
  WITNESS("detached");
  if (L >= 32) WITNESS("more_than_a_word_buffered");
  PROP(d.offset == off + k && d.live == L, "detached stream remembers word offset and buffered bits");
  PROP((d.pos.minor & ((1ull << 27) - 1)) == 0, "position encoding: no stray low bits");
  PROP((d.pos.major * per + (d.pos.minor >> 32)) * 32 + ((d.pos.minor >> 27) & 31) == bit, "the reported position encodes exactly the absolute bit position of the next unread bit");
  PROP(pos_eq(d.pos, pos_of(off + k, L)), "reference position formula agrees");
  PROP(blk->ref_count == 1, "the stream's hold on its input block is dropped");
}

/* ================================================================== do_scan(): what a candidate may become (C10) */
void h_scan_candidate(void)
{
  LOAD_INPUTS();
  static uint32_t words[4];
  struct detached_bitstream *task;
  unsigned S = 4;
  num_worker = 2; work_units = 2; in_slots = 8; out_slots = 4; total_out_slots = 8; in_granul = 16; bs100k = 9;
  init();
  eof = false;
  on_input_avail(words, 16);                    /* one input block of 4 words; enqueues its scan task */
  ASSUME(IN.p_word <= S && IN.p_live <= 31 && 32u * IN.p_word >= IN.p_live);
  ASSUME(32u * IN.p_word - IN.p_live < 32u * S);     /* the parser has not left this input block (advance() would have released its scan task) */
  ASSUME(IN.c_word <= S && IN.c_live <= 31 && 32u * IN.c_word >= IN.c_live + 80u);   /* a candidate ends >= 80 bits into the stream */
  parser_bs = bits_init(0); parser_bs.offset = IN.p_word; parser_bs.live = IN.p_live; parser_bs.pos = pos_of(IN.p_word, IN.p_live);
  parse_token = IN.scan_ok & 2 ? true : false;
  stub_word = IN.c_word; stub_live = IN.c_live; stub_rv = (IN.scan_ok & 1) ? OK : MORE;
  ASSUME(can_scan());
  nfreed = 0;
  unsigned units = work_units;
  do_scan();
  struct position cpos = pos_of(IN.c_word, IN.c_live);
  bool beyond = pos_lt(parser_bs.pos, cpos);
  if (stub_rv != OK) {
    WITNESS("nothing_found");
    PROP(work_units == units && empty(unord_q) && empty(retr_q), "a scan without a match creates nothing and gives its work unit back");
  } else if (!beyond) {
    WITNESS("candidate_not_ahead_of_parser");
    PROP(work_units == units && empty(unord_q) && empty(retr_q), "a candidate at or before the parser's position is dropped (C10)");
  } else {
    WITNESS("candidate_ahead_of_parser");
    PROP(work_units == units - 1 && size(unord_q) == 1 && size(retr_q) == 1, "a candidate ahead of the parser becomes exactly one speculative retrieve job");
    PROP(pos_eq(peek(unord_q)->base, cpos) && !peek(unord_q)->complete, "it is recorded, unconfirmed, under the bit position where it was found");
    PROP(pos_eq(peek(retr_q)->base, cpos) && peek(retr_q)->unord_link == peek(unord_q) && peek(retr_q)->curr_pos.offset == IN.c_word && peek(retr_q)->curr_pos.live == IN.c_live,
         "its retrieve job starts at that bit position and is linked to the record");
  }
}

/* ================================================================== do_parse(): confirming or discarding candidates (C10) */
#ifdef REAL_HEAP
void h_parse_match(void)
{
  LOAD_INPUTS();
  static uint32_t words[4];
  struct unord_blk *ub[3];
  unsigned S = 4, i, n = IN.n_unord;
  num_worker = 4; work_units = 4; in_slots = 8; out_slots = 4; total_out_slots = 8; in_granul = 16; bs100k = 9;
  init();
  eof = false;
  on_input_avail(words, 16);
#ifndef NU
#define NU 3
#endif
  ASSUME(n <= NU);
  ASSUME(IN.c_word <= S && IN.c_live <= 31 && 32u * IN.c_word >= IN.c_live + 80u);     /* where the parser ends up */
  struct position ppos = pos_of(IN.c_word, IN.c_live);
  for (i = 0; i < 3; i++) if (i < n) {
    ASSUME(IN.u_word[i] <= S && IN.u_live[i] <= 31 && 32u * IN.u_word[i] >= IN.u_live[i] + 80u);
    ub[i] = xmalloc(sizeof *ub[i]);
    ub[i]->base = pos_of(IN.u_word[i], IN.u_live[i]);
    ub[i]->complete = IN.u_complete[i] & 1; ub[i]->legitimate = false;
    ub[i]->end_pos = bits_init(S); ub[i]->end_pos.pos = pos_of(S, 0);
    { unsigned j; for (j = 0; j < i; j++) ASSUME(!pos_eq(ub[j]->base, ub[i]->base)); }     /* one record per bit position */
    enqueue(unord_q, ub[i]);
  }
  parser_bs = bits_init(0);
  parse_mode = 1; stub_word = IN.c_word; stub_live = IN.c_live;
  ASSUME(can_parse());
  nfreed = 0;
  unsigned units = work_units, matched = 3;
  for (i = 0; i < 3; i++) if (i < n && pos_eq(ub[i]->base, ppos)) matched = i;
  do_parse();
  PROP(size(order_q) == 1 && pos_eq(dq_get(order_q, 0).base, ppos) && dq_get(order_q, 0).hdr.crc == 0xC0FFEE, "the block header is queued for output under the parser's bit position");
  unsigned left = 0;
  for (i = 0; i < 3; i++) if (i < n) {
    if (pos_lt(ub[i]->base, ppos)) {
      WITNESS("stale_candidate_discarded");
      if (IN.u_complete[i] & 1) PROP(was_freed(ub[i]), "a finished candidate the parser passed over is released (C10)");
      else PROP(!was_freed(ub[i]) && ub[i]->complete && !ub[i]->legitimate, "an unfinished candidate the parser passed over is marked not legitimate (C10)");
    } else if (i != matched) { left++; PROP(!was_freed(ub[i]) && (ub[i]->complete != 0) == ((IN.u_complete[i] & 1) != 0), "candidates ahead of the parser are left alone"); }
  }
  if (matched < 3) {
    WITNESS("candidate_confirmed");
    PROP(empty(retr_q) && work_units == units, "a block already found by the scanner is not retrieved twice; the parser's work unit is given back");
    if (IN.u_complete[matched] & 1) PROP(was_freed(ub[matched]) && parse_token, "a finished confirmed block hands the parser role on at once");
    else PROP(!was_freed(ub[matched]) && ub[matched]->complete && ub[matched]->legitimate && !parse_token, "an unfinished confirmed block is marked legitimate; its retriever will hand the parser role on");
    PROP(parser_bs.offset == S, "the parser continues after the confirmed block");
  } else {
    WITNESS("block_only_the_parser_found");
    PROP(size(retr_q) == 1 && pos_eq(peek(retr_q)->base, ppos) && peek(retr_q)->unord_link == 0 && work_units == units - 1 && !parse_token,
         "a block nobody found yet gets a retrieve job at the parser's position, owned by the sequential chain");
  }
  PROP(size(unord_q) == left, "exactly the candidates ahead of the parser remain on record");
}
#endif

HARNESS_MAIN(REPLAY_ENTRY)

/* C11 / C13 (decompression side): rely/guarantee steps over the real tasks of src/expand.c.
 *
 * Monitor invariant INV (conservation, from which the capacities of retr_q, emit_q and reord_q follow):
 *   work_units + |retr_q| + |emit_q| + P + S + R + E == num_worker       (P,S,R,E: parse/scan/retrieve/emit tasks
 *   out_slots  + E_slot + |reord_q| + W  == total_out_slots               running outside the lock; W: buffers at the writer)
 * Each task is run from a havocked state satisfying INV; at every lock release INV is asserted, at every lock
 * acquisition the counters and queue sizes are havocked again under INV (what other threads may do).
 * The codec is a stub returning arbitrary results its interface allows.  The real attach()/detach()/advance()
 * run on a concrete two-block input queue.
 * NOT covered here: bounds of unord_q / order_q / scan_q / input_q (they need a relational invariant over
 * which jobs are speculative), liveness.
 */
#include "verif.h"
#include <string.h>
#include <stdlib.h>
#ifdef REPLAY
#include <setjmp.h>
static jmp_buf cut_jmp;
#define CUT() longjmp(cut_jmp, 1)
#else
#define CUT() __CPROVER_assume(0)
#endif

#ifndef QCAP
#define QCAP 2                 /* worker count 1..QCAP */
#endif
#define OMAX 6                 /* output slots 3..OMAX (the invariant does not depend on the production factor 16) */
#define MAXQ OMAX

struct inputs {
  unsigned num_worker, work_units, out_slots, parse_token, parsing_done;
  unsigned n_retr, n_emit, n_reord, n_unord, n_order, n_unord_fill;
  unsigned gP, gS, gR, gE, gW;
  unsigned pos_word[4], pos_live[4];      /* positions of the job at the head of retr_q / scan task / parser / candidate */
  unsigned rv[3];                         /* stub results: parse/scan/retrieve/emit */
  unsigned stop_word, stop_live;
  unsigned link_state;                    /* retrieve job: 0 no record, 1 unfinished record, 2 confirmed, 3 refuted */
  unsigned rely[4][8];
};
DECLARE_INPUTS

static bool rg_mode;
static unsigned rely_k;
static unsigned gP, gS, gR, gE, gW;       /* ghosts */
static bool token_owner;                  /* the running task is the sequential chain */
static void rely_havoc(void);
static void check_inv(void);
static unsigned freed_cnt;
static void verif_free(void *p) { (void)p; freed_cnt++; }
#define free(p) verif_free(p)
#include "expand.c"            /* the real /repo/src/expand.c */
#undef free

bool eof; unsigned work_units, in_slots, out_slots, total_work_units, total_in_slots, total_out_slots; size_t in_granul, out_granul;
unsigned num_worker; size_t max_mem; bool decompress; unsigned bs100k = 9; bool force, keep, verbose, print_cctrs, small, ultra;
struct filespec ispec, ospec;
static void *alloc_ptr[64]; static size_t alloc_sz[64]; static unsigned alloc_n;
void *xmalloc(size_t n)
{
  /* C13: whatever a task allocates is bounded by a constant plus one output buffer - never by input or output size */
  PROP(n <= 65536 + out_granul, "allocations of the decompression tasks are bounded by a constant plus one output buffer (C13)");
  void *p = malloc(n); ASSUME(p != 0);
  if (alloc_n < 64) { alloc_ptr[alloc_n] = p; alloc_sz[alloc_n] = n; alloc_n++; }
  return p;
}
/* size in bytes of the block xmalloc() returned for p (0 if unknown): the capacity the real init() gave a queue */
static size_t cap_of(const void *p)
{
  unsigned i; for (i = 0; i < alloc_n; i++) if (alloc_ptr[i] == p) return alloc_sz[i];
  return 0;
}
void info(const char *fmt, ...) { (void)fmt; }
static bool failed, fail_allowed;
void failf(const struct filespec *f, const char *fmt, ...)
{
  (void)f; (void)fmt; failed = true;
  /* data errors may end the run only where the sequential order is known: in the parser and in the reorder task;
     a speculative job must carry its error to do_reorder() instead (C10) */
  PROP(fail_allowed, "only the parser and the reorder task may end the run with a data error; other tasks defer their status (C10)");
  CUT();
}
static int lock_depth;
void sched_lock(void) { lock_depth++; if (rg_mode) rely_havoc(); }
void sched_unlock(void) { if (rg_mode) check_inv(); lock_depth--; }
void source_close(void) {}
void source_release_buffer(void *b) { (void)b; }
static unsigned written;
void sink_write_buffer(void *b, size_t size, size_t weight) { (void)b; (void)size; (void)weight; written++; }
void up_heap(void *root, unsigned size) { (void)root; (void)size; }
void down_heap(void *vroot, unsigned size) { void **root = vroot; void *t = root[0]; root[0] = root[size]; root[size] = t; }

/* codec stubs: any result the interface allows; the stream is left at a symbolic position of the block */
uint32_t crc_table[256];
static void move_to(struct bitstream *bs)
{
  if (bs->block) { const uint32_t *base = (const uint32_t *)bs->block->buffer; unsigned w = IN.stop_word % (unsigned)(bs->block->size + 1); bs->data = base + w; }
  bs->live = IN.stop_live % 32u; bs->buff = 0;
}
void parser_init(struct parser_state *ps, int bs, int sm) { ps->state = 0; ps->bs100k = bs; ps->computed_crc = 0; ps->stream_mode = sm; }
int parse(struct parser_state *ps, struct header *hd, struct bitstream *bs, unsigned *garbage)
{
  (void)ps; hd->crc = 1; hd->bs100k = 9; *garbage = 0;
  unsigned r = IN.rv[0] % 3u;
  if (r == 0) { move_to(bs); return OK; }
  if (r == 1) { bs->data = bs->limit; bs->live = 0; bs->buff = 0; return MORE; }
  bs->data = bs->limit; bs->live = 0; bs->buff = 0; return FINISH;
}
int scan(struct bitstream *bs, unsigned skip) { (void)skip; if (IN.rv[0] & 1) { move_to(bs); return OK; } bs->data = bs->limit; bs->live = 0; bs->buff = 0; return MORE; }
void decoder_init(struct decoder_state *ds) { ds->internal_state = 0; ds->tt = 0; ds->block_size = 0; }
void decoder_free(struct decoder_state *ds) { (void)ds; }
int retrieve(struct decoder_state *ds, struct bitstream *bs)
{
  unsigned r = IN.rv[1] % 3u;
  ds->block_size = 5;
  if (r == 0) { move_to(bs); return OK; }
  if (r == 1) { bs->data = bs->limit; bs->live = 0; bs->buff = 0; return MORE; }
  move_to(bs); return ERR_PREFIX;
}
void decode(struct decoder_state *ds) { (void)ds; }
int emit(struct decoder_state *ds, void *buf, size_t *sz) { (void)ds; (void)buf; unsigned r = IN.rv[2] % 3u; if (r == 0) { *sz -= 1; return OK; } if (r == 1) { *sz = 0; return MORE; } return ERR_RUNLEN; }

/* ---- INV ---- */
static bool inv_holds(void)
{
  if (!(num_worker >= 1 && num_worker <= QCAP)) return false;
  if (work_units > num_worker || out_slots > total_out_slots) return false;
  if (gP > 1 || gS > num_worker || gR > num_worker || gE > num_worker || gW > total_out_slots) return false;
  if (size(retr_q) > num_worker || size(emit_q) > num_worker || size(reord_q) > total_out_slots) return false;
  if (work_units + size(retr_q) + size(emit_q) + gP + gS + gR + gE != num_worker) return false;
  if (out_slots + gE + size(reord_q) + gW != total_out_slots) return false;
  if (gP == 1 && parse_token) return false;          /* a running parser holds the token */
  return true;
}
static void check_inv(void) { PROP(inv_holds(), "monitor invariant of the decompressor: work units and output slots are conserved, job queues within capacity (C11)"); }

static uint32_t wordsA[2], wordsB[2];
static struct position pos_of(unsigned word, unsigned live)
{
  struct position p; uint64_t bit = 32ull * word - live, w = bit / 32, per = in_granul / 4;
  p.major = w / per; p.minor = ((w % per) << 32) + ((bit % 32) << 27);
  return p;
}
static struct detached_bitstream dbs_at(unsigned word, unsigned live)
{
  struct detached_bitstream d = bits_init(word);
  d.live = live; d.pos = pos_of(word, live);
  return d;
}

static void load_state(void)
{
  unsigned i;
  num_worker = IN.num_worker; ASSUME(num_worker >= 1 && num_worker <= QCAP);
  total_in_slots = 4u * num_worker; total_out_slots = 3u + IN.n_unord % (OMAX - 2u); in_granul = 8; out_granul = 16;   /* small buffers; slot total symbolic 3..OMAX */
  work_units = num_worker; in_slots = total_in_slots; out_slots = total_out_slots; bs100k = 9;
  init();                                                  /* real capacities */
  /* two input blocks of two words each are queued: offsets 0..1 and 2..3 */
  eof = false;
  on_input_avail(wordsA, 8); on_input_avail(wordsB, 8);
  while (!empty(scan_q)) (void)dequeue(scan_q);
  eof = true;
  work_units = IN.work_units; out_slots = IN.out_slots; parse_token = IN.parse_token & 1; parsing_done = false;
  gP = IN.gP; gS = IN.gS; gR = IN.gR; gE = IN.gE; gW = IN.gW;
  ASSUME(IN.n_retr <= num_worker && IN.n_emit <= num_worker && IN.n_reord <= total_out_slots);
  for (i = 0; i < MAXQ; i++) {
    if (i < num_worker) {
      struct retr_blk *rb = xmalloc(sizeof *rb); rb->curr_pos = dbs_at(IN.pos_word[0] % 5u, 0); rb->base = rb->curr_pos.pos; rb->unord_link = 0; decoder_init(&rb->ds); retr_q.root[i] = rb;
      struct emit_blk *eb = xmalloc(sizeof *eb); eb->base = pos_of(1, 0); eb->status = OK; eb->end_offset = 1; decoder_init(&eb->ds); emit_q.root[i] = eb;
    }
    if (i < total_out_slots) { struct out_blk *ob = xmalloc(sizeof *ob + 16); ob->base = pos_of(1, 0); ob->size = 1; ob->crc = 1; ob->blk_sz = 5; ob->status = OK; ob->end_offset = 1; reord_q.root[i] = ob; }
  }
  retr_q.size = IN.n_retr; emit_q.size = IN.n_emit; reord_q.size = IN.n_reord;
  parser_bs = dbs_at(IN.pos_word[2] % 5u, 0);
  ASSUME(inv_holds());
  written = 0; freed_cnt = 0; failed = false;
}

static void rely_havoc(void)
{
  unsigned k = rely_k++;
  if (k >= 4) CUT();
  work_units = IN.rely[k][0]; out_slots = IN.rely[k][1];
  retr_q.size = IN.rely[k][2]; emit_q.size = IN.rely[k][3]; reord_q.size = IN.rely[k][4];
  gW = IN.rely[k][5];
  /* other tasks may start and finish; this task's own ghost stays counted (added by the caller around the run) */
  /* the parser token cannot change hands while this task is the sequential chain (it holds the token) */
  parse_token = (gP == 1 || token_owner) ? false : (IN.rely[k][7] & 1);
  ASSUME(inv_holds());
}

#define BEGIN_TASK() do { rg_mode = false; token_owner = false; fail_allowed = false; load_state(); rg_mode = true; rely_k = 0; lock_depth = 1; } while (0)

void h_rgx_emit(void)
{
  LOAD_INPUTS();
  BEGIN_TASK();
  /* the block the writer waits for may or may not be the one at the head of the emit queue */
  { struct head_blk hb; hb.base = pos_of(IN.pos_word[3] % 5u, 0); hb.hdr.crc = 1; hb.hdr.bs100k = 9; if (IN.n_order & 1) push(order_q, hb); }
  ASSUME(can_emit());
  WITNESS("emit_enabled");
  if (out_slots <= 2) WITNESS("emit_on_reserved_slot");
  /* reservation that keeps the pipeline live: the last two output slots go only to the block the writer waits for */
  PROP(out_slots > 2 || (!empty(order_q) && pos_eq(peek(emit_q)->base, dq_get(order_q, 0).base)), "the last two output slots are used only for the block at the head of the output order (C11)");
  if (IN.rv[2] % 3u == 1) WITNESS("emit_needs_another_buffer");
  gE++;                                   /* ghost: this task takes one slot and the job's work unit out of the queues */
  do_emit();
  gE--;
  PROP(lock_depth == 1, "task returns holding the scheduler lock");
  check_inv();
}

void h_rgx_reorder(void)
{
  LOAD_INPUTS();
  BEGIN_TASK();
  fail_allowed = true;
  ospec.fd = (IN.parsing_done & 2) ? -1 : 1;           /* -t or a real output */
  struct head_blk hb; hb.base = pos_of(IN.pos_word[3] % 5u, 0); hb.hdr.crc = 1; hb.hdr.bs100k = 9;
  if (IN.n_order & 1) push(order_q, hb);
  parsing_done = IN.parsing_done & 1;
  ASSUME(can_reorder());
  WITNESS("reorder_enabled");
  unsigned w0 = written;
#ifdef REPLAY
  if (!setjmp(cut_jmp))
#endif
  do_reorder();
  bool bogus_before = false;
  if (written > w0) { gW++; WITNESS("block_written"); } else WITNESS("bogus_block_dropped");
  check_inv();
}

void h_rgx_parse(void)
{
  LOAD_INPUTS();
  BEGIN_TASK();
  fail_allowed = true;
  ASSUME(gP == 0);
  ASSUME(can_parse());
  WITNESS("parse_enabled");
  unsigned r = IN.rv[0] % 3u;
  if (r == 0) WITNESS("parser_finds_block"); if (r == 1) WITNESS("parser_needs_input"); if (r == 2) WITNESS("parser_finishes");
  gP = 1;                                 /* ghost: from the first release on the running parser holds the token and one unit */
  rg_mode = true;
#ifdef REPLAY
  if (!setjmp(cut_jmp))
#endif
  do_parse();
  gP = 0;
  if (failed) return;
  PROP(lock_depth == 1, "task returns holding the scheduler lock");
  /* FINISH releases every retrieve job: fold that into the state before checking */
  check_inv();
}

void h_rgx_retrieve(void)
{
  LOAD_INPUTS();
  BEGIN_TASK();
  ASSUME(!parsing_done && size(retr_q) >= 1);
  /* the job at the head may carry a record of the scanner */
  struct unord_blk *ub = xmalloc(sizeof *ub);
  ub->base = peek(retr_q)->base; ub->end_pos = peek(retr_q)->curr_pos;
  ub->complete = (IN.link_state % 4u) >= 2; ub->legitimate = (IN.link_state % 4u) == 2;
  if (IN.link_state % 4u) peek(retr_q)->unord_link = ub;
  /* a job without an unconfirmed record is the sequential chain: it holds the parser token */
  token_owner = false;
  if ((IN.link_state % 4u) == 0 || (IN.link_state % 4u) == 2) { ASSUME(!parse_token && gP == 0); token_owner = true; }
  ASSUME(can_retrieve());
  WITNESS("retrieve_enabled");
  if (IN.rv[1] % 3u == 1) WITNESS("retrieve_needs_input");
  if ((IN.link_state % 4u) == 3) WITNESS("refuted_candidate_aborted");
  gR++;
  do_retrieve();
  gR--;
  PROP(lock_depth == 1, "task returns holding the scheduler lock");
  check_inv();
}

void h_rgx_scan(void)
{
  LOAD_INPUTS();
  BEGIN_TASK();
  struct detached_bitstream *t = xmalloc(sizeof *t);
  *t = dbs_at(IN.pos_word[1] % 4u, 0);
  ASSUME(t->pos.major >= parser_bs.pos.major);
  enqueue(scan_q, t);
  ASSUME(can_scan());
  WITNESS("scan_enabled");
  /* reservation: speculative scanning never takes the last free work unit while the parser may need it */
  PROP(work_units > 1 || !parse_token, "the last free work unit is not given to the scanner while the parser is idle (C11)");
  if (IN.rv[0] & 1) WITNESS("candidate_reported");
  /* Records already waiting in unord_q.  Assumption J (paper argument, DESIGN.md 5 C11; not decided here): every
     record is backed by a distinct work unit or output slot held by a speculative job.  Before this scan starts at
     most num_worker-2 units (one is free for this scanner, one is free or held by the sequential chain - the
     reservation rule checked above) and total_out_slots-2 slots (reservation rule of do_emit) can be so held.
     Decided here: the capacity the real init() allocated holds the record the real do_scan() adds on top of that. */
  {
    unsigned n = IN.n_unord_fill;
    ASSUME(num_worker >= 2 ? n <= num_worker + total_out_slots - 4u : n == 0);
    unord_q.size = n;
    if (n > 0 && n == num_worker + total_out_slots - 4u) WITNESS("unord_q_filled_to_the_reservation_bound");
  }
  PROP(cap_of(unord_q.root) >= (size(unord_q) + 1u) * sizeof *unord_q.root, "unord_q as sized by init() has room for the record a scan adds when every unreserved unit and slot already backs one (C11)");
  PROP(cap_of(retr_q.root) >= (size(retr_q) + 1u) * sizeof *retr_q.root, "retr_q as sized by init() has room for the retrieve job a scan adds (C11)");
  gS++;
  do_scan();
  gS--;
  PROP(lock_depth == 1, "task returns holding the scheduler lock");
  check_inv();
}

void h_rgx_write_complete(void)
{
  LOAD_INPUTS();
  rg_mode = false; load_state(); lock_depth = 0;
  ASSUME(gW >= 1);
  WITNESS("write_completes");
  struct out_blk *ob = xmalloc(sizeof *ob + 16);
  on_write_complete(ob + 1);
  gW--;
  PROP(inv_holds(), "the output slot is given back when a write completes (C11)");
}

void h_rgx_terminate(void)
{
  LOAD_INPUTS();
  rg_mode = false; load_state();
  parsing_done = IN.parsing_done & 1;
  ASSUME(gP == 0 && gS == 0 && gR == 0 && gE == 0);
  if (can_terminate()) {
    WITNESS("terminates");
    PROP(empty(retr_q) && empty(emit_q) && empty(reord_q) && gW == 0 && parsing_done && parse_token, "the decompressor finishes only when every job queue is empty and every unit and slot is back (C11)");
  }
}

HARNESS_MAIN(REPLAY_ENTRY)

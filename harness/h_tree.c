/* C05 / C06 (and C08 when run with UB checks): decoding tables.  Real code: src/decode.c
 * make_tree() and the prefix-symbol lookup inside retrieve() (slow path), reached through
 * retrieve() itself:
 *
 * h_tree_symbol: retrieve() is resumed at S_DELTA_TAG in the state a finished delta stage suspends in
 *   (symbol index == alphabet size) with an arbitrary list of code lengths (alphabet NA symbols, one
 *   query per size; lengths 1..MAX_CODE_LENGTH, scaled build) and one 32-bit word of input.  It then runs the real make_tree(), the real IMTF/ftab
 *   initialisation and decodes the first prefix symbol of the first group with the real lookup
 *   (start[] table, then base[]/count[]/perm[] canonical search).  Observed at hook
 *   VERIF_POINT(SYMBOL_SLOW) and cut there.
 *   Checked: (1) a table is usable iff its Kraft sum is exactly 1; an incomplete / oversubscribed
 *   table that a group selects is rejected with ERR_INCOMPLT / ERR_PREFIX (the documented exception
 *   of C06); (2) for a complete table the decoded symbol and its length are those of the canonical
 *   prefix code of the lengths (reference: serial canonical decoder), for every following bit string.
 */
#include "verif.h"
#ifdef REPLAY
#include <setjmp.h>
static jmp_buf cut_jmp;
#define CUT() longjmp(cut_jmp, 1)
#else
#define CUT() __CPROVER_assume(0)
#endif
static unsigned seen_symbol, seen_len, seen;
#define VERIF_POINT(id, arg) verif_point_##id(arg)
#define verif_point_SELECTOR(j) ((void)0)
#define verif_point_DELTA_DONE(rs) ((void)0)
#define verif_point_HEADER_DONE(rs) ((void)0)
#define verif_point_SYMBOL_FAST(x) ((void)0)
static void verif_point_SYMBOL_SLOW(unsigned x);
#include <stdlib.h>
static int rs_freed;
static void verif_free(void *p);
#define free(p) verif_free(p)          /* the retriever state of these queries is a static object (field-sensitive for symex) */
#include "decode.c"            /* the real /repo/src/decode.c (scaled constants, see obligation) */
#undef free

#ifndef NA
#define NA 6                   /* largest alphabet explored */
#endif

struct inputs {
  unsigned alpha;
  unsigned len[NA];
  unsigned word0, word1;
};
DECLARE_INPUTS

void *xmalloc(size_t n) { void *p = malloc(n); ASSUME(p != 0); return p; }

static struct retriever_internal_state RS;
static struct decoder_state DS;
static void verif_free(void *p) { if (p == (void *)&RS) rs_freed++; else free(p); }
static uint32_t TT[4];
static uint32_t DATA[3];
static unsigned want_sym, want_len, have_want;

static int step_mode;
static void verif_point_SYMBOL_SLOW(unsigned x)
{
  if (step_mode) { if (seen >= 1) CUT(); /* a second symbol cannot be reached with one input word */ seen++; seen_symbol = x & 0xFFFF; seen_len = x >> 16; return; }
  seen = 1; seen_symbol = x & 0xFFFF; seen_len = x >> 16;
  WITNESS("symbol_decoded");
  if (want_len > HUFF_START_WIDTH) WITNESS("symbol_longer_than_start_table");
  if (want_sym == 0) WITNESS("end_of_block_symbol");
  PROP(have_want, "a symbol is decoded only from a complete table");
  PROP(seen_symbol == want_sym, "decoded symbol is the canonical prefix code's symbol");
  PROP(seen_len == want_len, "decoded symbol consumes exactly its code length");
  CUT();
}

void h_tree_symbol(void)
{
  LOAD_INPUTS();
  struct bitstream bs;
  unsigned n = NA, i, l;                          /* alphabet size concrete per query (loop bounds fold) */
  ASSUME(IN.alpha == NA);
  uint64_t kraft = 0;
  for (i = 0; i < NA; i++) {
    ASSUME(IN.len[i] >= 1 && IN.len[i] <= MAX_CODE_LENGTH);
    if (i < n) kraft += (uint64_t)1 << (MAX_CODE_LENGTH - IN.len[i]);
  }

  /* reference: canonical code of the lengths, decode the bits after the terminator */
  have_want = 0;
  if (kraft == ((uint64_t)1 << MAX_CODE_LENGTH)) {
    uint64_t stream = ((uint64_t)IN.word0 << 32);   /* the input bits, left-justified */
    unsigned code = 0;
    for (l = 1; l <= MAX_CODE_LENGTH; l++) {
      for (i = 0; i < NA; i++)
        if (i < n && IN.len[i] == l) {
          if (!have_want && (unsigned)(stream >> (64 - l)) == code) {
            have_want = 1; want_len = l;
            want_sym = (i == 0) ? 257 : (i == 1) ? 258 : (i == n - 1) ? 0 : i - 1;
          }
          code++;
        }
      code <<= 1;
    }
  }

  DS.internal_state = &RS; DS.tt = TT; DS.block_size = 0; DS.bwt_idx = 0;
  RS.num_trees = 1; RS.t = 0; RS.num_selectors = 1; RS.selector[0] = 0;
  RS.mtf[0] = 0; RS.mtf[1] = 1; RS.mtf[2] = 2; RS.mtf[3] = 3; RS.mtf[4] = 4; RS.mtf[5] = 5;
  RS.alpha_size = n;
  for (i = 0; i < NA; i++) RS.code_len[i] = (uint8_t)IN.len[i];

  make_tree(&RS);                                 /* the real table builder */

  if (kraft < ((uint64_t)1 << MAX_CODE_LENGTH)) { WITNESS("incomplete_table"); PROP(RS.mtf[0] == ERR_INCOMPLT, "an incomplete table is marked unusable (a group selecting it is rejected with this code)"); return; }
  if (kraft > ((uint64_t)1 << MAX_CODE_LENGTH)) { WITNESS("oversubscribed_table"); PROP(RS.mtf[0] == ERR_PREFIX, "an oversubscribed table is marked unusable (a group selecting it is rejected with this code)"); return; }
  PROP(RS.mtf[0] == 0, "a complete table is usable");

  /* decode one symbol with the real lookup: resume retrieve() inside the first group */
  RS.state = S_PREFIX; RS.g = 0; RS.j = 0; RS.run = 0; RS.shift = 0; RS.runChar = 0;
  DATA[0] = htonl(IN.word0);
  bs.live = 0; bs.buff = 0; bs.block = 0; bs.eof = false; bs.data = DATA; bs.limit = DATA + 1;
  seen = 0;
#ifdef REPLAY
  if (!setjmp(cut_jmp))
#endif
  (void)retrieve(&DS, &bs);
  PROP(seen, "a complete table decodes a symbol");   /* reached only when the hook did not cut */
}

/* ------------------------------------------------------------------------------------------------
 * h_symbol_step: ONE prefix symbol of the MTF-value stage, from an ARBITRARY valid run state.
 * retrieve() is resumed at S_PREFIX with exactly one 32-bit input word (so exactly one symbol is
 * decoded and processed before it suspends, finishes the block or fails).  The coding table is a
 * fixed complete code over the 4-symbol alphabet {RUN-A:0, RUN-B:10, byte#1:110, end-of-block:111}
 * (built by the real make_tree()); run length, shift, run byte, fill level of the block, the
 * primary index and the input bits are symbolic.  SCALED: MAX_BLOCK_SIZE = VERIF_MAX_BLOCK_SIZE.
 * Reference: zero-run accumulation (bijective base 2), run flush with the block-capacity check
 * ("block overflow"), inverse move-to-front of the first list operation, end-of-block checks
 * ("empty block", "primary index too large").
 */
static uint32_t TTB[MAX_BLOCK_SIZE < 64 ? MAX_BLOCK_SIZE : 64];
struct sym_in { unsigned run, shift, runchar, fill, bwt_idx, word; };

void h_symbol_step(void)
{
  LOAD_INPUTS();
  struct bitstream bs;
  /* symbolic state packed into the generic input fields */
  unsigned run = IN.len[0], shift = IN.len[1], runChar = 7 /* concrete: keeps the frequency-table update at a fixed index */, fill = IN.len[3], bwt_idx = IN.alpha, i;
  ASSUME(MAX_BLOCK_SIZE <= 64);
  ASSUME(fill <= MAX_BLOCK_SIZE);
  /* invariant of the run state: `shift` RUN symbols were seen, each adding at least 1<<k, and RUN symbols
     are only accepted while run <= MAX_BLOCK_SIZE; a flushed state is run=1/0, shift=0 */
  ASSUME(shift <= 20 && run >= (1u << shift) - 1u && run <= 2u * MAX_BLOCK_SIZE + 2u);
  ASSUME(shift == 0 || ((run - (1u << (shift - 1))) <= MAX_BLOCK_SIZE));   /* the last accepted RUN symbol found run <= MAX_BLOCK_SIZE */

  DS.internal_state = &RS; DS.tt = TTB; DS.block_size = fill; DS.bwt_idx = bwt_idx;
  RS.num_trees = 1; RS.t = 0; RS.num_selectors = 1; RS.selector[0] = 0; RS.g = 0;
  RS.mtf[0] = 0; RS.mtf[1] = 1; RS.mtf[2] = 2; RS.mtf[3] = 3; RS.mtf[4] = 4; RS.mtf[5] = 5;
  RS.alpha_size = 4;
  RS.code_len[0] = 1; RS.code_len[1] = 2; RS.code_len[2] = 3; RS.code_len[3] = 3;
  make_tree(&RS);
  PROP(RS.mtf[0] == 0, "the fixed code of this query is complete");
  /* inverse-MTF list as retrieve() initialises it: two byte values in use, 7 and 9 */
  for (i = 0; i < 256; i++) RS.imtf_slide[CMAP_BASE + i] = (uint8_t)(i == 0 ? 7 : i == 1 ? 9 : 0);
  for (i = 0; i < NUM_ROWS; i++) RS.imtf_row[i] = RS.imtf_slide + CMAP_BASE + i * ROW_WIDTH;
  memset(DS.ftab, 0, sizeof DS.ftab);
  RS.state = S_PREFIX; RS.j = 0; RS.run = run; RS.shift = shift; RS.runChar = runChar;
#ifndef SYM
#define SYM 0                          /* which symbol the input starts with: one query per symbol class */
#endif
  /* the input word is concrete per query (one query per symbol class): only its leading code bits are ever
     examined, because exactly one symbol is decoded from it */
  unsigned w = (SYM == 0 ? 0x00000000u : SYM == 1 ? 0x80000000u : SYM == 2 ? 0xC0000000u : 0xE0000000u);
  DATA[0] = htonl(w);
  bs.live = 0; bs.buff = 0; bs.block = 0; bs.eof = false; bs.data = DATA; bs.limit = DATA + 1;

  /* reference */
  unsigned sym, klen;   /* 0 RUN-A, 1 RUN-B, 2 byte, 3 EOB */
  if (!(w >> 31)) { sym = 0; klen = 1; } else if (!((w >> 30) & 1)) { sym = 1; klen = 2; } else if (!((w >> 29) & 1)) { sym = 2; klen = 3; } else { sym = 3; klen = 3; }
  int want = MORE; unsigned wrun = run, wshift = shift, wchar = runChar, wfill = fill;
  if (sym == 3) {
    if (run > MAX_BLOCK_SIZE - fill) want = ERR_OVERFLOW;
    else { wfill = fill + run; want = wfill == 0 ? ERR_EMPTY : bwt_idx >= wfill ? ERR_BWTIDX : OK; }
  } else if (sym <= 1 && run <= MAX_BLOCK_SIZE) {
    wrun = run + ((sym + 1u) << shift); wshift = shift + 1;
  } else {
    if (run > MAX_BLOCK_SIZE - fill) want = ERR_OVERFLOW;
    else { wfill = fill + run; wchar = 9; wrun = 1; wshift = 0; }      /* list position 1 (second entry) moves to the front */
  }

  seen = 0; step_mode = 1; rs_freed = 0;
  int rv = -1;
#ifdef REPLAY
  if (!setjmp(cut_jmp))
#endif
  rv = retrieve(&DS, &bs);
  step_mode = 0;

  if (want == OK) WITNESS("block_complete");
  if (want == ERR_OVERFLOW) WITNESS("block_overflow_detected");
  if (want == ERR_BWTIDX) WITNESS("primary_index_outside_block");
  if (want == MORE && sym <= 1) WITNESS("zero_run_extended");
  if (want == MORE && sym == 2) WITNESS("run_flushed_and_byte_decoded");
  PROP(seen == 1 && seen_len == klen, "exactly one symbol is decoded from one input word");
  PROP(rv == want, "verdict after one symbol: block overflow / empty block / primary index are detected exactly (C05/C07)");
  if (want == MORE) {
    PROP(RS.run == wrun && RS.shift == wshift && RS.runChar == wchar, "run length, shift and current byte follow the zero-run / move-to-front rules");
    PROP(DS.block_size == wfill, "bytes written to the block so far");
    for (i = 0; i < 64; i++) if (i < MAX_BLOCK_SIZE) PROP(i < fill || i >= wfill || TTB[i] == runChar, "a flushed run writes exactly its byte into the block");
    PROP(wfill == fill || DS.ftab[runChar] == wfill - fill, "byte frequency table counts the flushed run");
  }
  if (want == OK) PROP(DS.block_size == wfill && rs_freed == 1 && DS.internal_state == 0, "final block size; the retriever state is released exactly once");
}

/* ------------------------------------------------------------------------------------------------
 * h_selector_clamp (production constants): a block may declare up to 32767 selectors; only the first
 * ceil((MAX_BLOCK_SIZE + 1) / 50) groups can ever be used (that many symbols incl. end-of-block fit a block),
 * and retrieve() bounds the count it will use.  The bound must not be below that number, otherwise a full
 * 900000-byte block whose last group holds only the end-of-block symbol is rejected (C06), and it must not
 * exceed the declared count.  retrieve() is resumed with a complete table and a first group that selects an
 * unusable table, so it returns at once; the bounded count is then read from the retriever state.
 */
void h_selector_clamp(void)
{
  LOAD_INPUTS();
  struct bitstream bs;
  unsigned ns = IN.alpha, i;
  ASSUME(ns >= 1 && ns <= MAX_SELECTORS);
  DS.internal_state = &RS; DS.tt = TT; DS.block_size = 0; DS.bwt_idx = 0;
  RS.state = S_DELTA_TAG; RS.num_trees = 2; RS.t = 1; RS.num_selectors = ns; RS.selector[0] = 1;
  RS.alpha_size = 3; RS.j = 3;                     /* last table complete */
  RS.code_len[0] = 1; RS.code_len[1] = 1; RS.code_len[2] = 1;   /* oversubscribed: the table the first group selects is unusable */
  RS.mtf[0] = 0; RS.mtf[1] = 1;
  DATA[0] = 0;
  bs.live = 0; bs.buff = 0; bs.block = 0; bs.eof = false; bs.data = DATA; bs.limit = DATA + 1;
  step_mode = 0; seen = 0;
  int rv = -1;
#ifdef REPLAY
  if (!setjmp(cut_jmp))
#endif
  rv = retrieve(&DS, &bs);
  unsigned need = (MAX_BLOCK_SIZE + 1u + GROUP_SIZE - 1u) / GROUP_SIZE;     /* 18001 at production constants */
  WITNESS("clamp_observed");
  if (ns > need) WITNESS("surplus_selectors_declared");
  PROP(rv == ERR_PREFIX, "the first group selects an unusable table: the run ends there");
  PROP(RS.num_selectors <= ns, "never more groups than declared");
  PROP(RS.num_selectors >= (ns < need ? ns : need), "every group a full block can need stays usable: the bound on used selectors is at least ceil((MAX_BLOCK_SIZE+1)/50) (C06)");
  (void)i;
}

HARNESS_MAIN(REPLAY_ENTRY)

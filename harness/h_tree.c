/* C05 / C06 (and C08 when run with UB checks): decoding tables.  Real code: src/decode.c
 * make_tree() and the prefix-symbol lookup inside retrieve() (slow path), reached through
 * retrieve() itself:
 *
 * h_tree_symbol: retrieve() is resumed at S_DELTA_TAG in the state a finished delta stage suspends in
 *   (symbol index == alphabet size) with an arbitrary list of code lengths (alphabet NA symbols, one
 *   query per size; lengths 1..MAX_CODE_LENGTH, scaled build) and one 32-bit word of input.  It then runs the real make_tree(), the real IMTF/ftab
 *   initialisation and decodes the first prefix symbol of the first group with the real lookup
 *   (start[] table, then base[]/count[]/perm[] canonical search).  Observed at hook
 *   VERIF_POINT(SYMBOL_SLOW) and cut there.
 *   Checked: (1) a table is usable iff its Kraft sum is exactly 1; an incomplete / oversubscribed
 *   table that a group selects is rejected with ERR_INCOMPLT / ERR_PREFIX (the documented exception
 *   of C06); (2) for a complete table the decoded symbol and its length are those of the canonical
 *   prefix code of the lengths (reference: serial canonical decoder), for every following bit string.
 */
#include "verif.h"
#ifdef REPLAY
#include <setjmp.h>
static jmp_buf cut_jmp;
#define CUT() longjmp(cut_jmp, 1)
#else
#define CUT() __CPROVER_assume(0)
#endif
static unsigned seen_symbol, seen_len, seen;
#define VERIF_POINT(id, arg) verif_point_##id(arg)
#define verif_point_DELTA_DONE(rs) ((void)0)
#define verif_point_HEADER_DONE(rs) ((void)0)
#define verif_point_SYMBOL_FAST(x) ((void)0)
static void verif_point_SYMBOL_SLOW(unsigned x);
#include "decode.c"            /* the real /repo/src/decode.c (scaled constants, see obligation) */

#ifndef NA
#define NA 6                   /* largest alphabet explored */
#endif

struct inputs {
  unsigned alpha;
  unsigned len[NA];
  unsigned word0, word1;
};
DECLARE_INPUTS

void *xmalloc(size_t n) { void *p = malloc(n); ASSUME(p != 0); return p; }

static struct retriever_internal_state RS;
static struct decoder_state DS;
static uint32_t TT[4];
static uint32_t DATA[3];
static unsigned want_sym, want_len, have_want;

static void verif_point_SYMBOL_SLOW(unsigned x)
{
  seen = 1; seen_symbol = x & 0xFFFF; seen_len = x >> 16;
  WITNESS("symbol_decoded");
  if (want_len > HUFF_START_WIDTH) WITNESS("symbol_longer_than_start_table");
  if (want_sym == 0) WITNESS("end_of_block_symbol");
  PROP(have_want, "a symbol is decoded only from a complete table");
  PROP(seen_symbol == want_sym, "decoded symbol is the canonical prefix code's symbol");
  PROP(seen_len == want_len, "decoded symbol consumes exactly its code length");
  CUT();
}

void h_tree_symbol(void)
{
  LOAD_INPUTS();
  struct bitstream bs;
  unsigned n = NA, i, l;                          /* alphabet size concrete per query (loop bounds fold) */
  ASSUME(IN.alpha == NA);
  uint64_t kraft = 0;
  for (i = 0; i < NA; i++) {
    ASSUME(IN.len[i] >= 1 && IN.len[i] <= MAX_CODE_LENGTH);
    if (i < n) kraft += (uint64_t)1 << (MAX_CODE_LENGTH - IN.len[i]);
  }

  /* reference: canonical code of the lengths, decode the bits after the terminator */
  have_want = 0;
  if (kraft == ((uint64_t)1 << MAX_CODE_LENGTH)) {
    uint64_t stream = ((uint64_t)IN.word0 << 32);   /* the input bits, left-justified */
    unsigned code = 0;
    for (l = 1; l <= MAX_CODE_LENGTH; l++) {
      for (i = 0; i < NA; i++)
        if (i < n && IN.len[i] == l) {
          if (!have_want && (unsigned)(stream >> (64 - l)) == code) {
            have_want = 1; want_len = l;
            want_sym = (i == 0) ? 257 : (i == 1) ? 258 : (i == n - 1) ? 0 : i - 1;
          }
          code++;
        }
      code <<= 1;
    }
  }

  DS.internal_state = &RS; DS.tt = TT; DS.block_size = 0; DS.bwt_idx = 0;
  RS.num_trees = 1; RS.t = 0; RS.num_selectors = 1; RS.selector[0] = 0;
  RS.mtf[0] = 0; RS.mtf[1] = 1; RS.mtf[2] = 2; RS.mtf[3] = 3; RS.mtf[4] = 4; RS.mtf[5] = 5;
  RS.alpha_size = n;
  for (i = 0; i < NA; i++) RS.code_len[i] = (uint8_t)IN.len[i];

  make_tree(&RS);                                 /* the real table builder */

  if (kraft < ((uint64_t)1 << MAX_CODE_LENGTH)) { WITNESS("incomplete_table"); PROP(RS.mtf[0] == ERR_INCOMPLT, "an incomplete table is marked unusable (a group selecting it is rejected with this code)"); return; }
  if (kraft > ((uint64_t)1 << MAX_CODE_LENGTH)) { WITNESS("oversubscribed_table"); PROP(RS.mtf[0] == ERR_PREFIX, "an oversubscribed table is marked unusable (a group selecting it is rejected with this code)"); return; }
  PROP(RS.mtf[0] == 0, "a complete table is usable");

  /* decode one symbol with the real lookup: resume retrieve() inside the first group */
  RS.state = S_PREFIX; RS.g = 0; RS.j = 0; RS.run = 0; RS.shift = 0; RS.runChar = 0;
  DATA[0] = htonl(IN.word0);
  bs.live = 0; bs.buff = 0; bs.block = 0; bs.eof = false; bs.data = DATA; bs.limit = DATA + 1;
  seen = 0;
#ifdef REPLAY
  if (!setjmp(cut_jmp))
#endif
  (void)retrieve(&DS, &bs);
  PROP(seen, "a complete table decodes a symbol");   /* reached only when the hook did not cut */
}

HARNESS_MAIN(REPLAY_ENTRY)

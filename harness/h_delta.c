/* C05 / C06: delta-coded code lengths.  Real code: src/decode.c retrieve(), entered at its
 * resumable states, one 6-bit table window per query (inductive step):
 *
 *  h_delta_window : resume at S_DELTA_TAG with an arbitrary mid-table state (alphabet size,
 *                   symbol index j, current length in 1..20) and exactly one 32-bit word of input,
 *                   so that exactly one window is decoded before retrieve() suspends (or the table
 *                   completes).  Compared with a strict bit-serial reference (bzip2 1.0.x rule: the
 *                   running length must be within 1..20 before every bit that is read).
 *  h_delta_start  : resume at the end of the selector stage (S_SELECTOR_MTF, last selector) so that
 *                   the 5-bit start value (0..31) and the first window of a table are decoded.
 *
 * Both directions are asserted: accepted => strictly valid and same lengths (C05); strictly valid
 * => accepted with the same lengths (C06).  Execution is cut at the VERIF_POINT(DELTA_DONE) hook
 * (a complete table; unreachable here because the single input word is used up first).
 */
#include "verif.h"
#ifdef REPLAY
#include <setjmp.h>
static jmp_buf cut_jmp;
static int cut_hit;
#define CUT() do { cut_hit = 1; longjmp(cut_jmp, 1); } while (0)
#else
#define CUT() __CPROVER_assume(0)
#endif
/* hook (KJN_LBZIP2_VERIF): execution is cut when a table is complete / the header stage is left */
#define VERIF_POINT(id, arg) verif_point_##id(arg)
#define verif_point_SELECTOR(j) ((void)0)
#define verif_point_SYMBOL_FAST(x) ((void)0)
#define verif_point_SYMBOL_SLOW(x) ((void)0)
struct retriever_internal_state;
static void verif_point_DELTA_DONE(struct retriever_internal_state *rs) { (void)rs; CUT(); }
static void verif_point_HEADER_DONE(struct retriever_internal_state *rs) { (void)rs; CUT(); }
#include "decode.c"            /* the real /repo/src/decode.c */

struct inputs {
  unsigned alpha;              /* alphabet size 3..258 */
  unsigned j;                  /* symbol being decoded */
  unsigned cur;                /* current code length (mid-table) */
  unsigned word;               /* the one input word */
  unsigned live0;              /* start harness: live bits on entry */
  uint64_t buff0;
};
DECLARE_INPUTS

/* ---- stubs for the parts of main.c that decode.c links against ---- */
void *xmalloc(size_t n) { void *p = malloc(n); ASSUME(p != 0); return p; }

/* ---- strict bit-serial reference for one window of `nbits` bits (MSB first in `win`) ---- */
enum { REF_REJECT, REF_OK };
struct refout { unsigned consumed; bool done; unsigned len; };

static int ref_window(unsigned cur, unsigned win, struct refout *o)
{
  unsigned i = 0;
  while (i < 6) {
    if (cur < 1 || cur > 20) return REF_REJECT;      /* checked before every bit read */
    if (!((win >> (5 - i)) & 1u)) { o->consumed = i + 1; o->done = true; o->len = cur; return REF_OK; }
    if ((win >> (4 - i)) & 1u) cur--; else cur++;
    i += 2;
  }
  if (cur < 1 || cur > 20) return REF_REJECT;        /* would be checked before the next bit */
  o->consumed = 6; o->done = false; o->len = cur;
  return REF_OK;
}

static struct retriever_internal_state RS;
static struct decoder_state DS;
static uint32_t TT[4];
static uint32_t DATA[2];

#define TRAP ERR_PREFIX        /* returned by the group loop when the table stage is left */

static void common_setup(struct bitstream *bs)
{
  DS.internal_state = &RS;
  DS.tt = TT;
  DS.block_size = 0;
  RS.num_trees = 1;
  RS.t = 0;
  RS.num_selectors = 1;
  RS.selector[0] = 1;          /* group 0 selects list position 1 ... */
  RS.mtf[0] = 0;
  RS.mtf[1] = TRAP;            /* ... which holds an error marker: retrieve() returns it at once */
  DATA[0] = htonl(IN.word);
  bs->block = 0;
  bs->eof = false;
  bs->data = DATA;
  bs->limit = DATA + 1;
}

void h_delta_window(void)
{
  LOAD_INPUTS();
  struct bitstream bs;
  struct refout ro;
  unsigned alpha = IN.alpha, j = IN.j, cur = IN.cur;
  ASSUME(alpha >= 3 && alpha <= MAX_ALPHA_SIZE);
  ASSUME(j < alpha);
  ASSUME(cur >= 1 && cur <= 20);         /* invariant of every mid-table state (established by h_delta_start / this step) */
  common_setup(&bs);
  bs.live = 0; bs.buff = 0;              /* one word: exactly one window fits before the next NEED() */
  RS.state = S_DELTA_TAG;
  RS.alpha_size = alpha;
  RS.j = j;
  RS.code_len[j] = (uint8_t)cur;

  int rv = -1;
#ifdef REPLAY
  if (!setjmp(cut_jmp))
#endif
  rv = retrieve(&DS, &bs);

  unsigned win = IN.word >> 26;
  int rr = ref_window(cur, win, &ro);
  unsigned consumed = 32u - bs.live - 32u * (unsigned)(bs.limit - bs.data);

  if (rr == REF_REJECT) WITNESS("window_rejected_by_reference");
  if (rr == REF_OK && ro.done && j + 1 == alpha) WITNESS("table_complete");
  if (rr == REF_OK && !ro.done) WITNESS("three_deltas_no_terminator");
  if (rr == REF_OK && ro.done && ro.consumed == 5) WITNESS("two_deltas_then_terminator");

  if (rr == REF_REJECT) {
    PROP(rv == ERR_DELTA, "a code-length step outside 1..20 is rejected (C05)");
  } else {
    PROP(rv != ERR_DELTA, "a strictly valid delta window is accepted (C06)");
    PROP(consumed == ro.consumed, "window consumes exactly the bits of the deltas and terminator it decodes");
    if (ro.done) {
      PROP(RS.code_len[j] == ro.len, "decoded code length equals the reference");
      PROP(rv == MORE && RS.j == j + 1 && RS.state == S_DELTA_TAG, "decoder suspends at the next symbol");
      if (j + 1 < alpha)
        PROP(RS.code_len[j + 1] == ro.len, "next symbol starts from the previous length");
    } else {
      PROP(rv == MORE && RS.j == j && RS.state == S_DELTA_TAG, "decoder suspends inside the same symbol");
      PROP(RS.code_len[j] == ro.len, "running code length equals the reference");
    }
  }
}

void h_delta_start(void)
{
  LOAD_INPUTS();
  struct bitstream bs;
  struct refout ro;
  unsigned alpha = IN.alpha;
  ASSUME(alpha >= 3 && alpha <= MAX_ALPHA_SIZE);
  common_setup(&bs);
  /* 5 live bits + one word: after the 5-bit start value exactly one window fits */
  bs.live = 5; bs.buff = IN.buff0;
  ASSUME((IN.buff0 << 5) == 0);
  RS.state = S_SELECTOR_MTF;
  RS.alpha_size = alpha;
  RS.j = 0;                               /* last (only) selector already stored */

  int rv = -1;
#ifdef REPLAY
  if (!setjmp(cut_jmp))
#endif
  rv = retrieve(&DS, &bs);

  unsigned start = (unsigned)(IN.buff0 >> 59);
  unsigned win = IN.word >> 26;
  int rr = ref_window(start, win, &ro);
  unsigned consumed = 37u - bs.live - 32u * (unsigned)(bs.limit - bs.data);

  if (start == 0) WITNESS("start_value_zero");
  if (start > 20) WITNESS("start_value_above_20");
  if (rr == REF_OK && !ro.done) WITNESS("start_then_three_deltas");
  if (rr == REF_REJECT) {
    PROP(rv == ERR_DELTA, "a start value or step outside 1..20 is rejected (C05)");
  } else {
    PROP(rv == MORE, "a strictly valid table start is accepted (C06)");
    PROP(consumed == 5 + ro.consumed, "start value and first window consume exactly their bits");
    PROP(RS.t == 0 && RS.state == S_DELTA_TAG, "decoder is inside the first table");
    PROP(RS.j == (ro.done ? 1u : 0u), "symbol index after the first window");
    PROP(RS.code_len[0] == ro.len && (!ro.done || RS.code_len[1] == ro.len), "first code length equals the reference");
  }
}

HARNESS_MAIN(REPLAY_ENTRY)

/* Signal / thread part of the symbolic OS model, force-included (-include) into every translation
 * unit of the main()/signals.c harness so that src/signals.c, compiled as its own unit, talks to the
 * model defined in h_main.c. */
#ifndef OSMODEL_SIG_H
#define OSMODEL_SIG_H
#include <signal.h>
#include <pthread.h>
#include <unistd.h>
#include <string.h>
#include <stdbool.h>
extern bool verif_in_subthread;
void verif_cut(void);
int v_sigemptyset(sigset_t *s);
int v_sigaddset(sigset_t *s, int n);
int v_sigismember(const sigset_t *s, int n);
int v_sigmask(int how, const sigset_t *set, sigset_t *oset);
int v_sigaction(int sig, const struct sigaction *act, struct sigaction *old);
int v_kill(int pid, int sig);
int v_sigpending(sigset_t *set);
int v_sigsuspend(const sigset_t *mask);
void v_exit(int code);
#define sigemptyset v_sigemptyset
#define sigaddset v_sigaddset
#define sigismember v_sigismember
#define getpid() 4242
#define pthread_self() ((pthread_t)(verif_in_subthread ? 2 : 1))
#define pthread_equal(a, b) ((a) == (b))
#define pthread_exit(x) verif_cut()
#define pthread_sigmask(h, s, o) v_sigmask(h, s, o)
#define sigprocmask(h, s, o) v_sigmask(h, s, o)
#define sigaction(s, a, o) v_sigaction(s, a, o)
#define kill(p, s) v_kill(p, s)
#define sigpending(s) v_sigpending(s)
#define sigsuspend(m) v_sigsuspend(m)
#define _exit v_exit
#endif

/* Force-included when src/process.c is compiled as the heap-helper unit of the scheduler harnesses:
 * only up_heap()/down_heap() and the shared counters are wanted from it; its monitor and I/O entry
 * points are renamed so that the harness can own them, and pthread primitives are no-ops. */
#ifndef PROC_RENAME_H
#define PROC_RENAME_H
#include <pthread.h>
#include <signal.h>
#include <unistd.h>
#define pthread_mutex_lock(m) 0
#define pthread_mutex_unlock(m) 0
#define pthread_cond_signal(c) 0
#define pthread_cond_broadcast(c) 0
#define pthread_cond_wait(c, m) 0
#define pthread_join(t, r) 0
#define pthread_create(t, a, f, x) 0
#define sched_lock proc_sched_lock
#define sched_unlock proc_sched_unlock
#define xwrite proc_xwrite
#define xread proc_xread
#define sink_write_buffer proc_sink_write_buffer
#define source_release_buffer proc_source_release_buffer
#define source_close proc_source_close
#define work proc_work
#endif

/* C08: the fast decoding path of retrieve() (src/decode.c, "at least 32 words of input" branch) never reads a
 * word at or behind `limit`.
 *
 * The fast path decodes a whole group of GROUP_SIZE (50) symbols with NEED_FAST(), which does not look at `limit`.
 * It is safe iff the guard admits it only when the words in front of `limit` cover the longest possible group for
 * every fill level of the bit buffer.  Worst case of the claim: every symbol of the group has the longest code
 * (MAX_CODE_LENGTH = 20 bits, production constants).  The number of words NEED_FAST() fetches is monotone in the bits
 * consumed, so a group of 50 x 20 bits bounds every other group (argument on paper; the group content below is that
 * worst case, concrete; what is symbolic is everything the guard depends on).
 *
 * Query: a complete table with four 20-bit codes (built by the real make_tree()); retrieve() is resumed at S_PREFIX
 * on the LAST symbol of a group (slow path; a 1-bit or a 20-bit symbol), so the next group reaches the real guard with
 * every reachable fill level of the bit buffer; the input then holds 50 symbols of 20 bits.  Symbolic: the number of
 * words in front of `limit` (0..NWORDS), the fill level at entry (0..63, case split with a symbolic selector), the
 * length of the first symbol.  Checked at the observation point of every fast-path symbol (the hook macro expands
 * inside retrieve(), so it sees the real `next` and `limit`): next <= limit.
 */
#include "verif.h"
#ifdef REPLAY
#include <setjmp.h>
static jmp_buf cut_jmp;
#define CUT() longjmp(cut_jmp, 1)
#else
#define CUT() __CPROVER_assume(0)
#endif
static unsigned fast_seen, fast_all_long, slow_seen;
#define VERIF_POINT(id, arg) verif_point_##id(arg)
#define verif_point_SELECTOR(j) ((void)0)
#define verif_point_DELTA_DONE(rs) ((void)0)
#define verif_point_HEADER_DONE(rs) ((void)0)
#define verif_point_SYMBOL_SLOW(x) (slow_seen++)
/* expands inside retrieve(): `next` and `limit` are its locals */
#define verif_point_SYMBOL_FAST(x) do { \
    PROP(next <= limit, "the fast decoding path has fetched only words in front of limit (C08)"); \
    fast_seen++; if (((x) >> 16) != MAX_CODE_LENGTH) fast_all_long = 0; \
  } while (0)
#include <stdlib.h>
static void verif_free(void *p) { (void)p; }
#define free(p) verif_free(p)
#include "decode.c"            /* the real /repo/src/decode.c, production code-length constants */
#undef free

#define NWORDS 40
struct inputs { unsigned n_words, fill, first_long; };
DECLARE_INPUTS

void *xmalloc(size_t n) { void *p = malloc(n); ASSUME(p != 0); return p; }

static struct retriever_internal_state RS;
static struct decoder_state DS;
static uint32_t TT[MAX_BLOCK_SIZE];
static uint32_t DATA[NWORDS + 2];

/* bit i of the input: first symbol, then 25 x (RUN-A, byte at list position 1) of 20 bits each, then zeros
   (1-bit symbols).  Canonical code of the lengths below: 20-bit codes are 18 ones followed by the symbol number
   in two bits; the 1-bit code is 0. */
static unsigned stream_bit(unsigned i, unsigned first_long)
{
  unsigned first = first_long ? 20u : 1u;
  if (i < first) { if (!first_long) return 0; return i < 18 ? 1 : i == 18 ? 1 : 0; }     /* symbol 2 (10) or symbol 4 (0) */
  i -= first;
  if (i >= 50u * 20u) return 0;
  { unsigned sym = i / 20u, b = i % 20u; if (b < 18) return 1; if (b == 18) return (sym & 1) ? 1 : 0; return 0; }   /* even: 00 RUN-A, odd: 10 byte */
}

static void run_case(unsigned fill, unsigned first_long, unsigned n_words)
{
  struct bitstream bs;
  unsigned i, j;
  DS.internal_state = &RS; DS.tt = TT; DS.block_size = 0; DS.bwt_idx = 0;
  RS.num_trees = 1; RS.t = 0; RS.num_selectors = 2; RS.selector[0] = 0; RS.selector[1] = 0; RS.g = 0;
  RS.mtf[0] = 0; RS.mtf[1] = 1; RS.mtf[2] = 2; RS.mtf[3] = 3; RS.mtf[4] = 4; RS.mtf[5] = 5;
  RS.alpha_size = 22;
  RS.code_len[0] = 20; RS.code_len[1] = 20; RS.code_len[2] = 20; RS.code_len[3] = 20;
  for (i = 4; i < 22; i++) RS.code_len[i] = (uint8_t)(i - 3);
  make_tree(&RS);
  PROP(RS.mtf[0] == 0, "the fixed code of this query is complete");
  for (i = 0; i < 256; i++) RS.imtf_slide[CMAP_BASE + i] = (uint8_t)(i == 0 ? 7 : i == 1 ? 9 : 0);
  for (i = 0; i < NUM_ROWS; i++) RS.imtf_row[i] = RS.imtf_slide + CMAP_BASE + i * ROW_WIDTH;
  memset(DS.ftab, 0, sizeof DS.ftab);
  RS.state = S_PREFIX; RS.j = GROUP_SIZE - 1; RS.run = 0; RS.shift = 0; RS.runChar = 7;
  /* bit buffer: `fill` bits of the stream, left-justified; the words continue the stream */
  { uint64_t v = 0; for (i = 0; i < 64; i++) if (i < fill && stream_bit(i, first_long)) v |= (uint64_t)1 << (63 - i); bs.buff = v; }
  for (j = 0; j < NWORDS + 2; j++) { uint32_t w = 0; for (i = 0; i < 32; i++) if (stream_bit(fill + 32 * j + i, first_long)) w |= 1u << (31 - i); DATA[j] = htonl(w); }
  bs.live = fill; bs.block = 0; bs.eof = false; bs.data = DATA; bs.limit = DATA + n_words;
  fast_seen = 0; fast_all_long = 1; slow_seen = 0;
  (void)retrieve(&DS, &bs);
  if (fast_seen == GROUP_SIZE && fast_all_long) {
    WITNESS("worst_case_group_on_the_fast_path");
    if (n_words <= 32) WITNESS("fast_path_with_at_most_32_words");
  }
  if (fast_seen == 0 && slow_seen > 1) WITNESS("slow_path_taken_instead");
}

void h_fast_group(void)
{
  LOAD_INPUTS();
  unsigned f, n = IN.n_words;
  ASSUME(n <= NWORDS);
  ASSUME(IN.fill < 64 && IN.first_long <= 1);
#ifndef FIRST_LONG
#define FIRST_LONG 1
#endif
  ASSUME(IN.first_long == FIRST_LONG);
  ASSUME(IN.fill >= FILL_LO && IN.fill < FILL_HI);
  /* case split: concrete fill level per case, selected symbolically (keeps the bit positions foldable) */
  for (f = FILL_LO; f < FILL_HI; f++)
    if (f == IN.fill) run_case(f, FIRST_LONG, n);
}

HARNESS_MAIN(REPLAY_ENTRY)

/* C20 (and C02's "tables complete, lengths 1..20"): length-limited prefix code construction.
 * Real code: src/encode.c assign_codes() -> sort_alphabet(), package_merge(); SCALED build
 * (MAX_CODE_LENGTH = L through the guarded hook), alphabet of AS symbols (concrete per query),
 * symbolic frequencies 0..FMAX.
 *
 * h_assign_opt: the lengths written by assign_codes() are within 1..L, Kraft-complete, the codes are the
 *   canonical codes of those lengths, and NO complete length vector whose longest code is no longer
 *   than the chosen longest code is cheaper (the competitor is a second symbolic vector: one
 *   exists-query, so the verdict covers every competitor).
 */
#include "verif.h"
#include "encode.c"            /* the real /repo/src/encode.c (scaled) */

#ifndef AS
#define AS 4
#endif
#ifndef FMAX
#define FMAX 15
#endif

struct inputs { unsigned freq[AS]; unsigned clen[AS]; };
DECLARE_INPUTS

int32_t divbwt(uint8_t *T, int32_t *SA, int32_t *bucket, int32_t n) { (void)T; (void)SA; (void)bucket; (void)n; return 0; }

void h_assign_opt(void)
{
  LOAD_INPUTS();
  static uint32_t code[MAX_ALPHA_SIZE + 1], freq[MAX_ALPHA_SIZE + 1];
  static uint8_t length[MAX_ALPHA_SIZE + 1];
  unsigned i, maxlen = 0, cmax = 0;
  uint64_t kraft = 0, ckraft = 0, cost = 0, ccost = 0;
  for (i = 0; i < AS; i++) { ASSUME(IN.freq[i] <= FMAX); freq[i] = IN.freq[i]; length[i] = 0; }

  (void)assign_codes(code, length, freq, AS);

  for (i = 0; i < AS; i++) {
    PROP(length[i] >= 1 && length[i] <= MAX_CODE_LENGTH, "every code length is within 1..MAX_CODE_LENGTH");
    kraft += (uint64_t)1 << (MAX_CODE_LENGTH - (length[i] > MAX_CODE_LENGTH ? MAX_CODE_LENGTH : length[i]));
    cost += (uint64_t)IN.freq[i] * length[i];
    if (length[i] > maxlen) maxlen = length[i];
  }
  PROP(kraft == ((uint64_t)1 << MAX_CODE_LENGTH), "the written table is a complete prefix code (Kraft sum 1)");
  /* competitor */
  for (i = 0; i < AS; i++) {
    ASSUME(IN.clen[i] >= 1 && IN.clen[i] <= MAX_CODE_LENGTH);
    ckraft += (uint64_t)1 << (MAX_CODE_LENGTH - IN.clen[i]);
    ccost += (uint64_t)IN.freq[i] * IN.clen[i];
    if (IN.clen[i] > cmax) cmax = IN.clen[i];
  }
  if (ckraft == ((uint64_t)1 << MAX_CODE_LENGTH) && cmax <= maxlen) {
    WITNESS("competitor_considered");
    if (cmax < maxlen) WITNESS("shorter_competitor_considered");
    PROP(cost <= ccost, "no complete prefix code with the same length limit codes the symbols in fewer bits (C20)");
  }
  if (maxlen == MAX_CODE_LENGTH) WITNESS("length_limit_reached");
}

HARNESS_MAIN(REPLAY_ENTRY)

/* C02 / C03 / C11 / C13 / C18: the compression scheduler, src/compress.c, with the real heap helpers
 * of src/process.c.  The codec (collect/encode/transmit) is replaced by contract stubs; the tasks, their
 * guards, init()/uninit(), write_header()/write_trailer(), do_reorder() and the I/O callbacks are real.
 *
 *  h_stream_frame : init(); up to 3 blocks pushed through the real reorder queue in arbitrary arrival
 *                   order; uninit().  The bytes handed to xwrite()/sink_write_buffer() are "BZh"+level,
 *                   the blocks in position order, the end-of-stream magic and the combined CRC
 *                   (rotate-left-1 xor fold of the block CRCs in stream order).  Run twice in a row with
 *                   different levels: the second stream must not depend on the first (per-run reset).
 *  h_rg_*         : rely/guarantee steps (DESIGN.md 3.4).  Each task runs from a havocked scheduler
 *                   state that satisfies the monitor invariant INV (queue sizes within capacity,
 *                   conservation of work units and output slots with ghost counts of tasks in flight);
 *                   whenever the task releases the scheduler lock the state is havocked again under INV
 *                   (what other threads may do); INV is asserted at every release and at the end.
 */
#include "verif.h"
#include <pthread.h>
#include <signal.h>
#include <unistd.h>
#include <string.h>
#include <stdlib.h>
#ifdef REPLAY
#include <setjmp.h>
static jmp_buf cut_jmp;
#define CUT() longjmp(cut_jmp, 1)
#else
#define CUT() __CPROVER_assume(0)
#endif

/* Heap helpers: by default a "bag with correct head extraction" stands in for up_heap()/down_heap() (the scheduler
   invariants checked here do not depend on the order inside the queues); the real helpers are checked on their own
   in h_heap (and used here when -DREAL_HEAP links src/process.c). */
#ifndef NBLK
#define NBLK 3
#endif
#ifndef QCAP
#define QCAP 3                 /* largest queue capacity explored in the RG steps */
#endif

struct qent { uint64_t major, minor, nmajor, nminor; uint32_t crc; };
struct inputs {
  unsigned level[2];
  unsigned nblk;
  uint32_t crc[NBLK];
  unsigned perm;               /* arrival order of the blocks at the reorder queue */
  /* RG: havocked monitor state */
  unsigned num_worker, work_units, out_slots, in_slots, eof, ultra;
  unsigned n_coll, n_trans, n_reord, inflight_collect, inflight_transmit, at_writer;
  struct qent coll[QCAP], trans[QCAP], reord[QCAP];
  uint64_t order_major, order_minor;
  unsigned collect_left;       /* collect stub: bytes left in the input block afterwards (0 = consumed) */
  unsigned rely[4][6];         /* havoc values applied at lock releases */
};
DECLARE_INPUTS

/* ---- codec stubs ---- */
struct encoder_state { unsigned id; unsigned fed; bool encoded; };
static unsigned n_init, n_collect, n_encode; static unsigned long init_mbs; static unsigned init_cf;
static const uint8_t *collect_buf; static size_t collect_len; static struct encoder_state *collect_enc, *encode_enc;
static bool seq_full;          /* sequential-mode stub: does the block become full in this call? */
size_t encoder_alloc_size(unsigned long mbs) { (void)mbs; return sizeof(struct encoder_state); }
void encoder_init(struct encoder_state *e, unsigned long mbs, unsigned cf) { n_init++; init_mbs = mbs; init_cf = cf; e->id = n_init; e->fed = 0; e->encoded = false; }
int collect(struct encoder_state *e, const uint8_t *buf, size_t *buf_sz)
{
  n_collect++; collect_buf = buf; collect_len = *buf_sz; collect_enc = e;
  /* consumes a non-empty prefix; the block is full exactly when something is left (or, in a sequential run, when the
     harness says the block filled up exactly at the end of this buffer) */
  size_t left = IN.collect_left;
  if (left >= *buf_sz) left = *buf_sz - 1;
  e->fed += (unsigned)(*buf_sz - left);
  *buf_sz = left;
  return left > 0 || seq_full;
}
size_t encode(struct encoder_state *e, uint32_t *crc) { n_encode++; encode_enc = e; e->encoded = true; *crc = 0x1234; return 8; }
void *transmit(struct encoder_state *e, void *buf) { (void)e; return buf; }

/* forward declarations used by the real code below */
static void rely_havoc(void);
static void check_inv(const char *where);
static bool rg_mode;
static int lock_depth;
static unsigned rely_k;
static bool collect_mode;
static unsigned locks_in_task;
static unsigned g_iblk;          /* ghost: input blocks held by running collect tasks */

#include "compress.c"          /* the real /repo/src/compress.c */

#ifndef REAL_HEAP
bool eof; unsigned work_units, in_slots, out_slots, total_work_units, total_in_slots, total_out_slots; size_t in_granul, out_granul;
void up_heap(void *root, unsigned size) { (void)root; (void)size; }
void down_heap(void *vroot, unsigned size) { void **root = vroot; void *t = root[0]; root[0] = root[size]; root[size] = t; }
#endif

/* ---- main.c globals and helpers ---- */
unsigned num_worker; size_t max_mem; bool decompress; unsigned bs100k = 9; bool force, keep, verbose, print_cctrs, small, ultra;
struct filespec ispec, ospec;
void *xmalloc(size_t n) { void *p = malloc(n); ASSUME(p != 0); return p; }
void info(const char *fmt, ...) { (void)fmt; }
void display(const char *fmt, ...) { (void)fmt; }
void failf(const struct filespec *f, const char *fmt, ...) { (void)f; (void)fmt; PROP(0, "no fatal error in the compression scheduler"); CUT(); }
void failx(int x, const char *fmt, ...) { (void)x; (void)fmt; PROP(0, "no fatal error in the compression scheduler"); CUT(); }
void failfx(const struct filespec *f, int x, const char *fmt, ...) { (void)f; (void)x; (void)fmt; PROP(0, "no fatal error in the compression scheduler"); CUT(); }
void halt(void) {}
void xraise(int sig) { (void)sig; }
struct timespec ts_now(void) { struct timespec t = { 0, 0 }; return t; }
bool ts_before(struct timespec a, struct timespec b) { (void)a; (void)b; return false; }
struct timespec ts_add_nano(struct timespec a, long n) { (void)n; return a; }
double ts_diff(struct timespec a, struct timespec b) { (void)a; (void)b; return 0; }
const struct process expansion = { 0, 0, 0, 0, 0, 0 };

/* ---- captured output ---- */
static uint8_t outbuf[64];
static unsigned outlen;
static unsigned written_ids[NBLK + 1], n_written;   /* block ids in the order they reach the writer */
void xwrite(const void *buf, size_t n) { PROP(outlen + n <= sizeof outbuf, "stream frame is small"); memcpy(outbuf + outlen, buf, n); outlen += (unsigned)n; }
void sink_write_buffer(void *buffer, size_t size, size_t weight)
{
  (void)size; (void)weight;
  if (n_written < NBLK + 1) written_ids[n_written] = *(unsigned *)buffer;
  n_written++;
  outbuf[outlen < sizeof outbuf ? outlen++ : 0] = 0xB0 + (uint8_t)*(unsigned *)buffer;   /* marker byte for the block */
}
static unsigned released_bufs;
void source_release_buffer(void *buffer) { (void)buffer; released_bufs++; if (collect_mode) g_iblk--; /* ghost: the consumed input block is gone */ }

/* ---- scheduler lock owned by the harness ---- */
void sched_lock(void)
{
  lock_depth++;
  if (rg_mode) rely_havoc();
  /* ghost: a collect task that kept part of its input block is about to put the block back */
  if (rg_mode && collect_mode && locks_in_task++ == 0 && IN.collect_left > 0) g_iblk--;
}
void sched_unlock(void) { if (rg_mode) check_inv("release"); lock_depth--; }


/* ================================================================== stream frame */
static uint32_t fold(uint32_t cc, uint32_t c) { return ((cc << 1) | (cc >> 31)) ^ c; }

static void one_stream(unsigned level, unsigned nblk, unsigned perm)
{
  unsigned i, start = outlen;
  struct work_blk *w[NBLK];
  bs100k = level; num_worker = 2; work_units = 2; in_slots = 4; out_slots = 6; total_out_slots = 6;
  n_written = 0;
  init();
  PROP(outlen == start + 4 && outbuf[start] == 'B' && outbuf[start + 1] == 'Z' && outbuf[start + 2] == 'h' && outbuf[start + 3] == '0' + level,
       "stream starts with BZh and the level digit (C02)");
  /* blocks 0..nblk-1 in stream order have positions (i,0) -> (i+1,0); they arrive in an arbitrary order */
  for (i = 0; i < NBLK; i++) if (i < nblk) {
    w[i] = XMALLOC(struct work_blk);
    w[i]->pos.major = i; w[i]->pos.minor = 0; w[i]->next.major = i + 1; w[i]->next.minor = 0;
    w[i]->buffer = malloc(sizeof(unsigned)); ASSUME(w[i]->buffer != 0); *(unsigned *)w[i]->buffer = i;
    w[i]->size = 4; w[i]->crc = IN.crc[i]; w[i]->weight = 1; w[i]->enc = 0;
  }
  /* arrival order: rotate by perm, drain whenever the reorder task is ready (as the scheduler would) */
  for (i = 0; i < NBLK; i++) if (i < nblk) {
    unsigned j = (i + perm) % nblk;
    enqueue(reord_q, w[j]);
    while (can_reorder()) do_reorder();
  }
  PROP(empty(reord_q), "every block leaves the reorder queue");
  PROP(n_written == nblk, "every block reaches the writer exactly once");
  for (i = 0; i < NBLK; i++) PROP(i >= nblk || written_ids[i] == i, "blocks reach the writer in stream order (C03/C11)");
  ASSUME(nblk <= NBLK);
  uninit();
  {
    uint32_t cc = 0; unsigned t = outlen - 10;
    for (i = 0; i < NBLK; i++) if (i < nblk) cc = fold(cc, ~IN.crc[i]);   /* the stored block CRC is the complement of the CRC register */
    PROP(outlen == start + 4 + nblk + 10, "stream frame: header, blocks, 10-byte trailer");
    PROP(outbuf[t] == 0x17 && outbuf[t + 1] == 0x72 && outbuf[t + 2] == 0x45 && outbuf[t + 3] == 0x38 && outbuf[t + 4] == 0x50 && outbuf[t + 5] == 0x90,
         "end-of-stream magic (C02)");
    PROP((((uint32_t)outbuf[t + 6] << 24) | ((uint32_t)outbuf[t + 7] << 16) | ((uint32_t)outbuf[t + 8] << 8) | outbuf[t + 9]) == cc,
         "stored stream CRC is the fold of the block CRCs in stream order, starting from 0 for every stream (C02/C03/C18)");
  }
}

void h_stream_frame(void)
{
  LOAD_INPUTS();
  ASSUME(IN.level[0] >= 1 && IN.level[0] <= 9 && IN.level[1] >= 1 && IN.level[1] <= 9);
  ASSUME(IN.nblk >= 1 && IN.nblk <= NBLK && IN.perm < NBLK);
  rg_mode = false; outlen = 0;
  one_stream(IN.level[0], IN.nblk, IN.perm);
  if (IN.perm != 0 && IN.nblk == NBLK) WITNESS("blocks_arrive_out_of_order");
  /* a second operand in the same process */
#ifndef SECOND_NBLK
#define SECOND_NBLK 1
#endif
  /* the second operand may be empty (no block at all): its stream CRC must then be 0 */
  one_stream(IN.level[1], (IN.n_coll & 1) ? SECOND_NBLK : 0, 0);
  if (!(IN.n_coll & 1)) WITNESS("empty_second_stream");
  WITNESS("second_stream_written");
}

/* ================================================================== rely/guarantee steps */
static unsigned g_collect, g_transmit, g_writer;    /* ghost: work units held by running collect / transmit tasks, buffers at the writer */
static unsigned cap_coll, cap_trans, cap_reord;

#define MAXCAP (2 * QCAP + 2)
static bool inv_holds(void)
{
  if (!(num_worker >= 1 && num_worker <= QCAP)) return false;
  if (work_units > num_worker || out_slots > total_out_slots) return false;
  if (g_collect > num_worker || g_transmit > num_worker || g_writer > total_out_slots) return false;   /* (also keeps the sums below from wrapping) */
  if (size(coll_q) > cap_coll) return false;
  /* every input block in the system holds one of the total_in_slots buffers: queued, or held by a running collect task */
  if (g_iblk > g_collect || size(coll_q) + g_iblk > cap_coll) return false;
  if (size(trans_q) > cap_trans || size(reord_q) > cap_reord) return false;
  /* conservation of work units: free + queued for transmission + held by running collect/transmit tasks */
  if (work_units + size(trans_q) + g_collect + g_transmit != num_worker) return false;
  /* conservation of output slots: free + taken by running transmit tasks + queued for reordering + at the writer */
  if (out_slots + g_transmit + size(reord_q) + g_writer != total_out_slots) return false;
  return true;
}
static void check_inv(const char *where) { (void)where; PROP(inv_holds(), "monitor invariant: queue sizes within capacity, work units and output slots conserved (C11)"); }

static uint8_t dummy_buf[8];

static void load_queue_state(void)
{
  unsigned i;
  num_worker = IN.num_worker; ASSUME(num_worker >= 1 && num_worker <= QCAP);
  total_in_slots = 2u * num_worker; total_out_slots = 2u * num_worker + 2;           /* set_memory_constraints(), checked by memconstraints */
  cap_coll = total_in_slots; cap_trans = num_worker; cap_reord = total_out_slots;     /* init(): capacities = initial slot counts */
  work_units = IN.work_units; out_slots = IN.out_slots; in_slots = IN.in_slots; eof = IN.eof & 1; ultra = IN.ultra & 1;
  g_collect = IN.inflight_collect; g_transmit = IN.inflight_transmit; g_writer = IN.at_writer; g_iblk = IN.in_slots;
  /* queue arrays are allocated with exactly the capacity init() gives them; contents are arbitrary valid blocks
     (no heap order is assumed) */
  coll_q.root = malloc(sizeof(void *) * cap_coll); trans_q.root = malloc(sizeof(void *) * cap_trans); reord_q.root = malloc(sizeof(void *) * cap_reord);
  ASSUME(coll_q.root && trans_q.root && reord_q.root);
  for (i = 0; i < MAXCAP; i++) {
    const struct qent *c = &IN.coll[i % QCAP], *t = &IN.trans[i % QCAP], *r = &IN.reord[i % QCAP];
    if (i < cap_coll) { struct in_blk *b = XMALLOC(struct in_blk); b->pos.major = c->major; b->pos.minor = c->minor; b->buffer = dummy_buf; b->size = 8; b->next = dummy_buf; b->left = 8; coll_q.root[i] = b; }
    if (i < cap_trans) { struct work_blk *w = XMALLOC(struct work_blk); w->pos.major = t->major; w->pos.minor = t->minor; w->next.major = t->nmajor; w->next.minor = t->nminor; w->size = 8; w->enc = malloc(sizeof(struct encoder_state)); w->crc = t->crc; w->weight = 1; trans_q.root[i] = w; }
    if (i < cap_reord) { struct work_blk *w = XMALLOC(struct work_blk); w->pos.major = r->major; w->pos.minor = r->minor; w->next.major = r->nmajor; w->next.minor = r->nminor; w->size = 8; w->buffer = malloc(8); ASSUME(w->buffer != 0); *(unsigned *)w->buffer = i; w->crc = r->crc; w->weight = 1; reord_q.root[i] = w; }
  }
  coll_q.size = IN.n_coll; trans_q.size = IN.n_trans; reord_q.size = IN.n_reord;
  order.major = IN.order_major; order.minor = IN.order_minor;
  n_written = 0;
  ASSUME(inv_holds());
}

/* what other threads may do while this task does not hold the lock: anything that keeps INV
   (queues may grow or shrink; entries beyond the old size are arbitrary valid blocks already in the arrays) */
static void rely_havoc(void)
{
  unsigned k = rely_k++;
  if (k >= 4) CUT();
  work_units = IN.rely[k][0]; out_slots = IN.rely[k][1];
  coll_q.size = IN.rely[k][2]; trans_q.size = IN.rely[k][3]; reord_q.size = IN.rely[k][4];
  g_writer = IN.rely[k][5];
  /* the in-flight ghosts belong to tasks: other tasks may start or finish, this task's own unit stays counted */
  ASSUME(inv_holds());
}

void h_rg_transmit(void)
{
  LOAD_INPUTS();
  rg_mode = false; load_queue_state(); rg_mode = true; rely_k = 0; lock_depth = 1;
  ASSUME(can_transmit());
  WITNESS("transmit_enabled");
  if (out_slots <= TRANSM_THRESH) WITNESS("transmit_on_reserved_slot");
  unsigned before = out_slots;
  /* reservation that keeps the pipeline live: with only the reserved slots left, a block may be transmitted
     only if it is the one the writer is waiting for (otherwise out-of-order blocks could take every slot) */
  PROP(before > 2 || pos_eq(peek(trans_q)->pos, order), "the last two output slots are given only to the block at the current stream position (C11)");
  g_transmit++;                          /* ghost: this task is now in flight (it took one slot and keeps the block's work unit) */
  do_transmit();
  g_transmit--;
  (void)before;
  PROP(lock_depth == 1, "task returns holding the scheduler lock");
  check_inv("end");
}

void h_rg_reorder(void)
{
  LOAD_INPUTS();
  rg_mode = false; load_queue_state(); rg_mode = true; rely_k = 0; lock_depth = 1;
  ASSUME(can_reorder());
  WITNESS("reorder_enabled");
  struct position was = order, nxt = peek(reord_q)->next;
  PROP(pos_eq(peek(reord_q)->pos, was), "only the block at the current stream position is handed to the writer (C03/C11)");
  do_reorder();
  g_writer++;                            /* ghost: the buffer is now at the writer (slot still taken) */
  PROP(pos_eq(order, nxt), "stream position advances to the block's successor");
  PROP(n_written == 1, "exactly one block is handed to the writer");
  check_inv("end");
}

void h_rg_collect(void)
{
  LOAD_INPUTS();
  rg_mode = false; load_queue_state(); ultra = false; rg_mode = true; rely_k = 0; lock_depth = 1;
  ASSUME(can_collect());
  WITNESS("collect_enabled");
  if (IN.collect_left > 0) WITNESS("input_block_split");
  /* ghost: while the task runs outside the lock it holds one work unit */
  g_collect++; g_iblk++; collect_mode = true; locks_in_task = 0;
  struct in_blk *ib = peek(coll_q);
  struct position p0 = ib->pos; const unsigned char *nx0 = ib->next; size_t left0 = ib->left;
  n_init = n_collect = n_encode = 0; seq_full = false; bs100k = 1 + IN.level[0] % 9u;
  ASSUME(left0 >= 1);
  do_collect();
  g_collect--;                          /* the work unit now travels with the block in trans_q */
  PROP(lock_depth == 1, "task returns holding the scheduler lock");
  check_inv("end");
  /* C04 / C03: every piece is packed on its own, by a fresh encoder of capacity level*100000, greedily from where the
     previous block of this piece stopped */
  PROP(n_init == 1 && init_mbs == bs100k * 100000ul && n_collect == 1 && n_encode == 1 && collect_enc == encode_enc, "one fresh encoder of the level's capacity per block; it is encoded after one collect call");
  PROP(collect_buf == nx0 && collect_len == left0, "the block is collected from the unread rest of its input piece");
  { size_t used = left0 - (IN.collect_left >= left0 ? left0 - 1 : IN.collect_left);
    if (left0 - used > 0)                 /* a fully consumed piece has been released: nothing to look at */
      PROP(ib->left == left0 - used && ib->next == nx0 + used, "the input piece remembers how far it was consumed"); }
}

/* ---- sequential mode: packing runs across input pieces (C04) ---- */
void h_rg_collect_seq(void)
{
  LOAD_INPUTS();
  rg_mode = false; load_queue_state(); ultra = true; collect_token = true; rg_mode = true; rely_k = 0; lock_depth = 1;
  /* a block left unfinished by the previous piece may exist; it then holds a work unit */
  struct work_blk *uw = 0; struct encoder_state *uenc = 0;
  if (IN.perm & 1) {
    uw = XMALLOC(struct work_blk); uenc = malloc(sizeof *uenc); ASSUME(uenc != 0); uenc->id = 77; uenc->fed = 5; uenc->encoded = false;
    uw->enc = uenc; uw->pos.major = 0; uw->pos.minor = 0; uw->next = uw->pos; uw->weight = 5;
    ASSUME(g_collect >= 1);              /* ghost: one of the held work units belongs to the unfinished block (no task runs for it) */
  }
  unfinished_work = uw;
  ASSUME(g_iblk == 0);                   /* the collector token is free: no collect task is running, none holds an input piece */
  ASSUME(size(coll_q) >= 1);             /* (the end-of-input flush with an empty queue is the eof branch below) */
  ASSUME(can_collect_seq());
  WITNESS("collect_seq_enabled");
  struct in_blk *ib = peek(coll_q);
  const unsigned char *nx0 = ib->next; size_t left0 = ib->left;
  ASSUME(left0 >= 1);
  n_init = n_collect = n_encode = 0; bs100k = 1 + IN.level[0] % 9u;
  seq_full = (IN.perm & 2) != 0;
  bool full = (IN.collect_left > 0 && left0 > 1) || seq_full;
  if (uw) WITNESS("block_continued_from_previous_piece");
  if (!full) WITNESS("block_stays_unfinished");
  if (!uw) { g_collect++; }             /* a new block takes a work unit */
  g_iblk++; collect_mode = true; locks_in_task = 0;
  do_collect_seq();
  PROP(lock_depth == 1, "task returns holding the scheduler lock");
  PROP(collect_token, "the collector role is handed back");
  PROP(n_collect == 1 && collect_buf == nx0 && collect_len == left0, "the next input piece is fed to the block being packed");
  if (uw) PROP(n_init == 0 && collect_enc == uenc, "a block left unfinished by the previous piece is continued, not restarted (packing runs across pieces, C04)");
  else PROP(n_init == 1 && init_mbs == bs100k * 100000ul, "a new block gets a fresh encoder of the level's capacity");
  if (full) {
    PROP(n_encode == 1 && encode_enc == collect_enc && unfinished_work == 0, "a full block is encoded and queued");
    g_collect--;
  } else {
    PROP(n_encode == 0 && unfinished_work != 0 && unfinished_work->enc == collect_enc, "a block that is not yet full waits for the next piece");
  }
  check_inv("end");
}

/* end of input in sequential mode: the block left unfinished by the last piece is encoded (C04, C01) */
void h_rg_collect_seq_flush(void)
{
  LOAD_INPUTS();
  rg_mode = false; load_queue_state(); ultra = true; collect_token = true; rg_mode = true; rely_k = 0; lock_depth = 1;
  struct work_blk *uw = XMALLOC(struct work_blk); struct encoder_state *uenc = malloc(sizeof *uenc); ASSUME(uenc != 0);
  uenc->id = 77; uenc->fed = 5; uenc->encoded = false; uw->enc = uenc; uw->pos.major = 0; uw->pos.minor = 0; uw->next = uw->pos; uw->weight = 5;
  ASSUME(g_collect >= 1 && g_iblk == 0);
  unfinished_work = uw; eof = true;
  ASSUME(size(coll_q) == 0);
  ASSUME(can_collect_seq());
  WITNESS("last_block_flushed");
  n_init = n_collect = n_encode = 0; collect_mode = false;
  unsigned t0 = size(trans_q);
  do_collect_seq();
  g_collect--;
  PROP(lock_depth == 1 && collect_token, "task returns holding the lock, collector role handed back");
  PROP(n_collect == 0 && n_init == 0 && n_encode == 1 && encode_enc == uenc && unfinished_work == 0, "at end of input the unfinished block is encoded as it is");
  check_inv("end");
  (void)t0;
}

void h_rg_write_complete(void)
{
  LOAD_INPUTS();
  rg_mode = false; load_queue_state(); lock_depth = 0;
  ASSUME(g_writer >= 1);
  WITNESS("write_completes");
  void *b = malloc(8); ASSUME(b != 0);
  on_write_complete(b);                 /* one short critical section */
  g_writer--;                           /* ghost: the buffer left the writer */
  PROP(inv_holds(), "monitor invariant after a write completes: the output slot is given back (C11)");
}

void h_rg_input_avail(void)
{
  LOAD_INPUTS();
  rg_mode = false; load_queue_state(); lock_depth = 0;
  /* the reader owns a free input slot when it delivers a block: queued + held blocks are below the total */
  ASSUME(size(coll_q) + g_iblk < cap_coll);
  WITNESS("input_block_arrives");
  on_input_avail(dummy_buf, 8);
  PROP(inv_holds(), "monitor invariant after an input block arrives: the collect queue stays within its capacity (C11)");
}

void h_terminate_guard(void)
{
  LOAD_INPUTS();
  rg_mode = false; load_queue_state();
  ASSUME(g_collect == 0 && g_transmit == 0);
  if (can_terminate()) {
    WITNESS("terminates");
    PROP(empty(coll_q) && empty(trans_q) && empty(reord_q) && g_writer == 0 && eof, "the compressor finishes only when all queues are empty, every slot is back and input ended (C11)");
  }
}

/* ================================================================== the real binary-heap helpers (with -DREAL_HEAP) */
#ifdef REAL_HEAP
#ifndef HN
#define HN 5
#endif
static bool is_heap(struct position **root, unsigned n)
{
  unsigned i;
  for (i = 1; i < HN + 1; i++) if (i < n && pos_lt(*root[i], *root[(i - 1) / 2])) return false;
  return true;
}
void h_heap_ops(void)
{
  LOAD_INPUTS();
  static struct position P[HN + 1];
  struct position *root[HN + 1], *seen;
  unsigned n = IN.n_coll, i, probe = IN.n_trans, cnt0 = 0, cnt1 = 0;
  ASSUME(n <= HN && probe <= HN);
  for (i = 0; i < HN + 1; i++) { P[i].major = IN.coll[i % QCAP].major & 3; P[i].minor = IN.coll[i % QCAP].minor & 1; if (i >= QCAP) P[i].major = IN.trans[i % QCAP].major & 3; root[i] = &P[i]; }
  ASSUME(is_heap(root, n));
  if (IN.eof & 1) {                       /* enqueue: new element sits at index n */
    WITNESS("heap_insert");
    up_heap(root, n);
    PROP(is_heap(root, n + 1), "up_heap restores the heap order (the head is the smallest position)");
    for (i = 0; i < HN + 1; i++) if (i <= n) { if (root[i] == &P[probe]) cnt1++; }
    PROP(probe > n || cnt1 == 1, "up_heap keeps every queued element exactly once");
  } else {                                /* dequeue */
    ASSUME(n >= 1);
    WITNESS("heap_remove");
    seen = root[0];
    down_heap(root, n - 1);
    PROP(root[n - 1] == seen, "down_heap hands out the previous head");
    PROP(is_heap(root, n - 1), "down_heap restores the heap order");
    for (i = 0; i < HN + 1; i++) if (i < n) { if (root[i] == &P[probe]) cnt0++; }
    PROP(probe >= n || cnt0 == 1, "down_heap keeps every queued element exactly once");
  }
}
#endif

HARNESS_MAIN(REPLAY_ENTRY)

/* C04 / C01 / C02: the initial run-length encoder.  Real code: src/encode.c collect(),
 * encoder_init(), and the final-run flush at the top of encode().
 *
 * h_collect_step: ONE call of collect() with a buffer of concrete length LEN (symbolic bytes) from an
 *   ARBITRARY pre-state satisfying the representation invariant INV, against a byte-wise reference
 *   with one byte of look-ahead.  Compared: bytes consumed, nblock, every block byte, the symbol
 *   map, the CRC, the full/not-full return value and the successor run state; and INV is
 *   re-established.  Because the reference is byte-wise and INV is inductive, buffers and splits of
 *   any length follow by composition (DESIGN.md C04).
 * h_collect_split: LEN bytes in one call  ==  the same bytes in two calls (1 + (LEN-1)), directly.
 * h_encode_flush: encode() up to its divbwt() call from an arbitrary INV state: a pending run >= 4
 *   gets its count byte, nothing else changes.
 * h_encoder_init: state after encoder_init() satisfies INV with an empty block.
 */
#include "verif.h"
#include "encode.c"            /* the real /repo/src/encode.c */

#ifndef MMAX
#define MMAX 9                 /* largest block capacity explored (symbolic 1..MMAX) */
#endif
#ifndef LEN
#define LEN 1
#endif

#ifdef MFIX
#define CAP ((unsigned)MFIX)   /* capacity fixed per query (lets symex fold the block address) */
#else
#define CAP (IN.M)
#endif

struct inputs {
  unsigned M;                  /* block capacity (max_block_size) */
  unsigned nblock;
  int rle_state;
  unsigned rle_character;
  uint32_t crc;
  uint8_t block[MMAX + 2];
  uint8_t buf[LEN + 1];
  unsigned probe;              /* symbolic index for comparing the 256-entry symbol map */
  unsigned cut;
};
DECLARE_INPUTS

/* ---- independent reference --------------------------------------------------------------- */

/* CRC-32/BZIP2 update.  Table-driven with the real crc_table; lemma crc_table (h_crc.c) proves the
   table equals the bitwise definition, which keeps this query free of 8-round xor chains. */
static uint32_t ref_crc_byte(uint32_t crc, unsigned x)   /* same expression shape as encode.c's CRC() */
{
  crc = (crc << 8) ^ crc_table[(crc >> 24) ^ (x)];
  return crc;
}

struct ref {
  unsigned M, n, r, c;         /* capacity, bytes in block, pending run length (0 = none), run byte */
  uint32_t crc;
  uint8_t block[MMAX + 2];
  bool probe_set;              /* reference value of cmap[IN.probe] */
  bool full;
};

static bool inv(unsigned M, unsigned n, int r)
{
  if (M < 1 || n > M) return false;
  if (r < 0 || r > 258) return false;
  if (r >= 4 && !(n >= 4 && n + 1 <= M)) return false;   /* room for the count byte is reserved */
  if (r >= 1 && r <= 3 && n < (unsigned)r) return false;
  return true;
}

static void ref_put(struct ref *R, uint8_t x, bool mark)
{
  R->block[R->n++] = x;
  if (mark && x == IN.probe) R->probe_set = true;
}

/* Feed `len` bytes; returns the number consumed.  Greedy packing rule of property C04:
   runs of 4..259 equal bytes become four copies plus a count byte; a fourth equal byte is taken
   only when it and its count byte both fit; a block is full when the next byte does not fit. */
static unsigned ref_collect(struct ref *R, const uint8_t *buf, unsigned len)
{
  unsigned i = 0, guard;
  R->full = false;
  for (guard = 0; guard < 2 * (LEN + 1) + 2; guard++) {
    if (R->r < 4 && R->n == R->M) { R->full = true; break; }
    if (i == len) break;
    uint8_t x = buf[i];
    if (R->r >= 4) {
      if (x == R->c) {
        i++; R->crc = ref_crc_byte(R->crc, x); R->r++;
        if (R->r == 259) { ref_put(R, 255, true); R->r = 0; }
      } else {
        ref_put(R, (uint8_t)(R->r - 4), true); R->r = 0;
      }
      continue;
    }
    if (R->r >= 1 && x == R->c) {
      if (R->r == 3 && R->n + 2 > R->M) { R->full = true; break; }
      i++; R->crc = ref_crc_byte(R->crc, x); ref_put(R, x, false); R->r++;
      continue;
    }
    i++; R->crc = ref_crc_byte(R->crc, x); ref_put(R, x, true); R->r = 1; R->c = x;
  }
  return i;
}

/* ---- harness plumbing -------------------------------------------------------------------- */

static struct encoder_state *E;
static uint8_t *Eblock;

static void make_encoder(void)
{
  unsigned i;
  ASSUME(IN.M >= 1 && IN.M <= MMAX);
#ifdef MFIX
  ASSUME(IN.M == MFIX);
#endif
  ASSUME(IN.probe < 256);
  E = malloc(encoder_alloc_size(MMAX));
  ASSUME(E != 0);
  encoder_init(E, CAP, 1);
  Eblock = (uint8_t *)(E->SA + E->max_block_size + GROUP_SIZE);
  ASSUME(inv(CAP, IN.nblock, IN.rle_state));
#ifdef RS_LO                       /* case split over the pending-run class, one query per class */
  ASSUME(IN.rle_state >= RS_LO && IN.rle_state <= RS_HI);
#endif
  E->nblock = IN.nblock;
  E->rle_state = IN.rle_state;
  E->rle_character = IN.rle_character & 0xFF;
  E->block_crc = IN.crc;
  /* Block pre-content: tied to IN.block WITHOUT writing at a symbolic offset (a symbolic-offset write
     into the encoder object would stop symex from constant-folding later reads of its fields):
     malloc'ed memory is nondeterministic for CBMC, so assuming equality is equivalent to writing. */
#ifdef REPLAY
  for (i = 0; i < MMAX; i++) Eblock[i] = IN.block[i];
#else
  for (i = 0; i < MMAX; i++) ASSUME(Eblock[i] == IN.block[i]);
#endif
}

static void make_ref(struct ref *R)
{
  unsigned i;
  R->M = CAP; R->n = IN.nblock; R->r = (unsigned)IN.rle_state; R->c = IN.rle_character & 0xFF;
  R->crc = IN.crc; R->probe_set = false; R->full = false;   /* symbol map starts empty (collect never reads it) */
  for (i = 0; i < MMAX + 2; i++) R->block[i] = IN.block[i];
}

static void compare(const struct ref *R, int rv, unsigned consumed_real, unsigned consumed_ref)
{
  unsigned i;
  PROP(consumed_real == consumed_ref, "collect consumes exactly the bytes the greedy packing rule admits");
  PROP((rv != 0) == R->full, "collect reports a full block exactly when the next byte does not fit");
  PROP(E->nblock == R->n, "run-length-encoded size equals the reference");
  for (i = 0; i < MMAX; i++)
    PROP(i >= R->n || Eblock[i] == R->block[i], "run-length-encoded block bytes equal the reference");
  PROP(E->block_crc == R->crc, "block CRC covers exactly the consumed bytes");
  PROP(E->cmap[IN.probe] == R->probe_set, "symbol map marks exactly the byte values written");
  if (!R->full) {
    PROP(E->rle_state == (int)R->r, "pending run length carried to the next call");
    PROP(R->r == 0 || E->rle_character == R->c, "pending run byte carried to the next call");
    PROP(inv(E->max_block_size, E->nblock, E->rle_state), "representation invariant re-established");
  } else {
    PROP(E->rle_state == -1, "full block is marked");
  }
}

void h_collect_step(void)
{
  LOAD_INPUTS();
  struct ref R;
#ifdef ALPHA                        /* restrict input bytes to a small alphabet (long-buffer queries) */
  { unsigned k; for (k = 0; k < LEN; k++) ASSUME(IN.buf[k] < ALPHA); }
#endif
  make_encoder();
  make_ref(&R);
  size_t sz = LEN;
  int rv = collect(E, IN.buf, &sz);
  unsigned cr = ref_collect(&R, IN.buf, LEN);
  unsigned consumed = (unsigned)(LEN - sz);

  if (R.full) WITNESS("block_full");
  if (!R.full && R.r >= 4) WITNESS("run_of_four_or_more_pending");
#if LEN >= 1
  if (R.full && cr < LEN && IN.rle_state == 3) WITNESS("full_by_fourth_byte_lookahead_on_resume");
  if (IN.rle_state == 258 && R.r == 0 && cr >= 1) WITNESS("run_reaches_259");
  if (IN.rle_state >= 4 && R.r < 4 && R.n > IN.nblock && !R.full) WITNESS("count_byte_written");
  if (IN.rle_state >= 4 && R.full && cr == 0) WITNESS("unget_after_count_byte_fills_block");
#endif
#if LEN >= 2
  if (IN.rle_state == 0 && R.full && cr == 1 && IN.nblock + 1 == CAP) WITNESS("fresh_byte_fills_block");
  if (IN.rle_state == 2 && cr == 2 && R.r == 4) WITNESS("fourth_byte_taken_inline");
#endif
  compare(&R, rv, consumed, cr);
}

/* In-line fast path of collect() on longer buffers.  The byte-equality pattern ("shape") of the
   buffer is enumerated inside the harness (all 2^(LEN-1) shapes, concrete bytes: each run gets the
   next byte value), so symex folds every byte comparison and forks only on the capacity checks;
   capacity M, fill level nblock, CRC and block contents stay symbolic and are decided by the solver.
   Start state: no pending run (the in-line path is entered through state 0 whatever happened
   before; the resumed paths are covered by h_collect_step from arbitrary pre-states). */
#ifdef INLINE_SHAPES
#ifndef SHAPE
#error "SHAPE (bit mask of the byte-equality pattern) must be defined"
#endif
void h_collect_inline(void)
{
  LOAD_INPUTS();
  struct ref R;
  uint8_t buf[LEN + 1];
  unsigned shape = SHAPE, k;
  uint8_t v = 0;
  ASSUME(IN.rle_state == 0);
  buf[0] = v;
  for (k = 1; k < LEN; k++) {
    if (!((shape >> (k - 1)) & 1u)) v++;      /* bit clear: a new run starts at byte k */
    buf[k] = v;
  }
  make_encoder();
  E->rle_state = 0;                             /* concrete, so the entry test folds */
  E->block_crc = 0xFFFFFFFFu;                   /* concrete start value: with concrete bytes the CRC folds per path
                                                   (arbitrary start values are covered by h_collect_step) */
  make_ref(&R);
  R.crc = 0xFFFFFFFFu;
  size_t sz = LEN;
  int rv = collect(E, buf, &sz);
  unsigned cr = ref_collect(&R, buf, LEN);
  if (R.full && cr < LEN) WITNESS("inline_block_fills_mid_buffer");
  if (!R.full) WITNESS("inline_buffer_fits");
  compare(&R, rv, (unsigned)(LEN - sz), cr);
}
#endif

/* A run crossing the 259 limit inside ONE call (in-line run loop): RUNLEN equal bytes, then one
   different byte, from a fresh state with ample room (nblock + 12 <= M, so no capacity branch is
   taken: capacity handling is the subject of the other obligations).  Bytes and CRC start value are
   concrete, fill level and capacity symbolic. */
#ifdef RUNLEN
void h_collect_longrun(void)
{
  LOAD_INPUTS();
  struct ref R;
  static uint8_t buf[RUNLEN + 2];
  unsigned k, i;
  ASSUME(IN.rle_state == 0);
  for (k = 0; k < RUNLEN; k++) buf[k] = 7;
  buf[RUNLEN] = 9;
  make_encoder();
  ASSUME(IN.nblock + 12 <= CAP);
  E->rle_state = 0;
  E->block_crc = 0xFFFFFFFFu;
  make_ref(&R);
  R.crc = 0xFFFFFFFFu; R.r = 0;
  size_t sz = RUNLEN + 1;
  int rv = collect(E, buf, &sz);
  /* byte-wise reference; no capacity branch because of the ample-room assumption */
  for (i = 0; i < RUNLEN + 1; i++) {
    uint8_t x = buf[i];
    if (R.r >= 4 && x != R.c) { ref_put(&R, (uint8_t)(R.r - 4), true); R.r = 0; }
    R.crc = ref_crc_byte(R.crc, x);
    if (R.r >= 4) { R.r++; if (R.r == 259) { ref_put(&R, 255, true); R.r = 0; } }
    else if (R.r >= 1 && x == R.c) { ref_put(&R, x, false); R.r++; }
    else { ref_put(&R, x, true); R.r = 1; R.c = x; }
  }
  R.full = (R.n == R.M);
  WITNESS("long_run_in_one_call");
  compare(&R, rv, (unsigned)(RUNLEN + 1 - sz), RUNLEN + 1);
}
#endif

#if LEN >= 2
void h_collect_split(void)
{
  LOAD_INPUTS();
  struct ref R;
  make_encoder();
  /* one call with LEN bytes on a reference copy == two calls; use the reference for the one-shot
     side (it is proved equal to collect() by h_collect_step) and the real code for the split. */
  make_ref(&R);
  unsigned cr = ref_collect(&R, IN.buf, LEN);
  unsigned cut = IN.cut;
  ASSUME(cut >= 1 && cut < LEN);
  size_t sz = cut;
  int rv = collect(E, IN.buf, &sz);
  unsigned consumed = cut - (unsigned)sz;
  if (!rv && sz == 0) {
    WITNESS("second_call_made");
    sz = LEN - cut;
    rv = collect(E, IN.buf + cut, &sz);
    consumed += (LEN - cut) - (unsigned)sz;
  }
  compare(&R, rv, consumed, cr);
}
#endif

/* ---- final-run flush in encode() ---------------------------------------------------------- */

static unsigned flush_seen;

#ifdef REPLAY
#include <setjmp.h>
static jmp_buf flush_jmp;
#endif

/* harness definition of the block-sorting entry point: encode() is cut here */
int32_t divbwt(uint8_t *T, int32_t *SA, int32_t *bucket, int32_t n)
{
  (void)SA; (void)bucket;
  unsigned want_n = IN.nblock + (IN.rle_state >= 4 ? 1u : 0u);
  unsigned i;
  flush_seen = 1;
  if (IN.rle_state >= 4) WITNESS("flush_writes_count_byte");
  if (IN.rle_state < 4) WITNESS("flush_nothing_pending");
  PROP(T == Eblock, "block sorter receives the collected block");
  PROP((unsigned)n == want_n && E->nblock == want_n, "final block size counts the pending run's count byte");
  for (i = 0; i < MMAX; i++)
    PROP(i >= IN.nblock || T[i] == IN.block[i], "flush leaves collected bytes unchanged");
  if (IN.rle_state >= 4) {
    PROP(T[IN.nblock] == (uint8_t)(IN.rle_state - 4), "pending run is closed with its count byte");
    PROP(E->cmap[IN.rle_state - 4], "count byte is entered into the symbol map");
  }
  PROP(want_n <= IN.M, "flushed block still fits the capacity");
#ifdef REPLAY
  longjmp(flush_jmp, 1);
#else
  ASSUME(0);
#endif
  return 0;
}

void h_encode_flush(void)
{
  LOAD_INPUTS();
  uint32_t crc;
  make_encoder();
  ASSUME(IN.nblock > 0);               /* encode() is only called on non-empty blocks */
  flush_seen = 0;
#ifdef REPLAY
  if (!setjmp(flush_jmp))
#endif
  encode(E, &crc);
}

void h_encoder_init(void)
{
  LOAD_INPUTS();
  ASSUME(IN.M >= 1 && IN.M <= MMAX && IN.probe < 256);
  E = malloc(encoder_alloc_size(MMAX));
  ASSUME(E != 0);
  E->cmap[IN.probe] = true; E->rle_state = IN.rle_state; E->nblock = IN.nblock; E->block_crc = IN.crc;
  encoder_init(E, IN.M, CLUSTER_FACTOR);
  WITNESS("init_done");
  PROP(E->nblock == 0 && E->rle_state == 0 && E->block_crc == 0xFFFFFFFFu && !E->cmap[IN.probe],
       "fresh encoder: empty block, no pending run, CRC preset, empty symbol map");
  PROP(E->max_block_size == IN.M && inv(E->max_block_size, E->nblock, E->rle_state), "fresh encoder satisfies INV");
}

HARNESS_MAIN(REPLAY_ENTRY)

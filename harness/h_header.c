/* C05 / C06: block header stages of src/decode.c retrieve(): symbol bitmap, number of tables, number of
 * selectors, selector list.  Inductive steps (one input word per call, arbitrary resumable state):
 *
 *  h_bitmap_step   : resume at S_BITMAP_SMALL with an arbitrary bucket (16 byte values) of the symbol map:
 *                    the used byte values of the bucket are appended in increasing order to the inverse-MTF
 *                    start list, empty buckets are skipped; after the last bucket: an empty alphabet, a table
 *                    count outside 2..6 or a selector count of 0 are rejected.
 *  h_selector_step : resume at S_SELECTOR_MTF: one unary-coded selector, rejected iff it names a table that
 *                    does not exist.
 */
#include "verif.h"
#ifdef REPLAY
#include <setjmp.h>
static jmp_buf cut_jmp;
#define CUT() longjmp(cut_jmp, 1)
#else
#define CUT() __CPROVER_assume(0)
#endif
#define VERIF_POINT(id, arg) verif_point_##id(arg)
struct retriever_internal_state;
static void verif_point_DELTA_DONE(struct retriever_internal_state *rs) { (void)rs; CUT(); }
static void verif_point_HEADER_DONE(struct retriever_internal_state *rs) { (void)rs; CUT(); }
static unsigned sel_limit;            /* selectors the query lets through before the path is cut */
static void verif_point_SELECTOR(unsigned j) { if (j >= sel_limit) CUT(); }
#define verif_point_SYMBOL_FAST(x) ((void)0)
#define verif_point_SYMBOL_SLOW(x) ((void)0)
#include "decode.c"            /* the real /repo/src/decode.c */

struct inputs {
  unsigned bucket;             /* 0..15: which 16 byte values */
  unsigned small;              /* 16 bits: which of them are used */
  unsigned big_rest;           /* descriptor bits of the buckets after this one (left-justified in 16 bits) */
  unsigned alpha;              /* used byte values found so far */
  unsigned word;
  unsigned nsel, j, ntrees;
};
DECLARE_INPUTS

void *xmalloc(size_t n) { void *p = malloc(n); ASSUME(p != 0); return p; }

static struct retriever_internal_state RS;
static struct decoder_state DS;
static uint32_t TT[4];
static uint32_t DATA[2];

static void setup(struct bitstream *bs)
{
  DS.internal_state = &RS; DS.tt = TT; DS.block_size = 0;
  DATA[0] = htonl(IN.word);
  bs->live = 0; bs->buff = 0; bs->block = 0; bs->eof = false; bs->data = DATA; bs->limit = DATA + 1;
}

void h_bitmap_step(void)
{
  LOAD_INPUTS();
  struct bitstream bs;
#ifdef BUCKET
  unsigned b = BUCKET;                                      /* bucket concrete per query: all 16 are registered */
  ASSUME(IN.bucket == BUCKET);
#else
  unsigned b = IN.bucket;
#endif
  unsigned small = IN.small & 0xFFFF, alpha0 = IN.alpha, i;
  ASSUME(b < 16 && alpha0 <= 16 * b);                       /* at most 16 used values per earlier bucket */
#ifdef CONTENT
  ASSUME(alpha0 == CONTENT_ALPHA0 && b < 15 && (IN.big_rest & 0x8000));
#endif
  setup(&bs);
  RS.state = S_BITMAP_SMALL;
  RS.j = 16 * b; RS.small = (uint16_t)small; RS.alpha_size = alpha0;
  /* `big` has already been shifted b times: bit 15 describes THIS bucket (set, since its map was read) */
  RS.big = (uint16_t)(0x8000u | ((IN.big_rest & 0xFFFF) >> 1));
  sel_limit = 1;                          /* only selector 0 can be reached with one input word */

  int rv = -1;
#ifdef REPLAY
  if (!setjmp(cut_jmp))
#endif
  rv = retrieve(&DS, &bs);

  /* reference: append the used values of this bucket */
  unsigned cnt = 0, k;
  for (k = 0; k < 16; k++) if ((small >> (15 - k)) & 1u) cnt++;
#ifdef CONTENT
  /* list content (separate query: first position concrete, the following bucket is non-empty so that exactly one
     bucket is processed) */
  for (k = 0, i = 0; k < 16; k++)
    if ((small >> (15 - k)) & 1u) { PROP(RS.imtf_slide[CMAP_BASE + alpha0 + i] == 16 * b + k, "used byte values enter the list in increasing order"); i++; }
#endif
  /* following buckets */
  unsigned rest = (IN.big_rest & 0xFFFF) >> 1;               /* bit 14 = next bucket, ... */
  unsigned nb = 16, q;
  for (q = b + 1; q < 16; q++) if ((rest >> (14 - (q - b - 1))) & 1u) { nb = q; break; }
  if (nb < 16) {
    WITNESS("next_bucket_loaded");
    if (nb > b + 1) WITNESS("empty_buckets_skipped");
    PROP(rv == MORE && RS.state == S_BITMAP_SMALL, "decoder suspends after loading the next non-empty bucket's map");
    PROP(RS.j == 16 * nb && RS.alpha_size == alpha0 + cnt, "bucket position and number of used values so far");
    PROP(RS.small == (IN.word >> 16), "the next bucket's 16-bit map is taken from the input");
  } else {
    /* bitmap complete: alphabet size, then 3 bits table count, 15 bits selector count, first selector */
    unsigned total = alpha0 + cnt, nt = IN.word >> 29, ns = (IN.word >> 14) & 0x7FFF;
    WITNESS("bitmap_complete");
    if (total == 0) { WITNESS("empty_alphabet"); PROP(rv == ERR_BITMAP, "a block that uses no byte value is rejected"); }
    else if (nt < 2 || nt > 6) { WITNESS("bad_table_count"); PROP(rv == ERR_TREES, "a table count outside 2..6 is rejected"); }
    else if (ns == 0) { WITNESS("no_selectors"); PROP(rv == ERR_GROUPS, "a selector count of 0 is rejected"); }
    else {
      PROP(rv == MORE || rv == ERR_SELECTOR, "header fields accepted; decoder is in the selector list");
      PROP(RS.alpha_size == total + 2 && RS.num_trees == nt && RS.num_selectors == ns, "alphabet size (used values + 2), table count and selector count are taken from the header");
    }
  }
}

void h_selector_step(void)
{
  LOAD_INPUTS();
  struct bitstream bs;
  unsigned ns = IN.nsel, j = IN.j, nt = IN.ntrees;
  ASSUME(nt >= 2 && nt <= 6 && ns >= 1 && ns <= MAX_SELECTORS && j + 1 < ns);
  setup(&bs);
  RS.state = S_SELECTOR_MTF; RS.num_selectors = ns; RS.num_trees = nt; RS.j = j; RS.alpha_size = 3;
  sel_limit = j + 2;                      /* one selector per input word */

  int rv = -1;
#ifdef REPLAY
  if (!setjmp(cut_jmp))
#endif
  rv = retrieve(&DS, &bs);

  /* reference: unary code, 1..6 bits: number of leading one bits = list position */
  unsigned ones = 0, k;
  for (k = 0; k < 6; k++) { if ((IN.word >> (31 - k)) & 1u) ones++; else break; }
  if (ones >= nt) { WITNESS("selector_names_missing_table"); PROP(rv == ERR_SELECTOR, "a selector that names a table beyond the table count is rejected (C05)"); }
  else {
    WITNESS("selector_stored");
    if (ones == 5) WITNESS("longest_selector_code");
    PROP(rv == MORE && RS.state == S_SELECTOR_MTF && RS.j == j + 1, "one selector is decoded per step");
    PROP(RS.selector[j + 1] == ones, "selector value is the number of leading one bits");
    PROP(32u - bs.live == ones + 1, "a selector consumes its one bits and the terminating zero");
  }
}

HARNESS_MAIN(REPLAY_ENTRY)

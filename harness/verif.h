/* Common harness conventions (DESIGN.md §3.2).
 *
 * Three build modes of every harness translation unit:
 *   default        goto-cc/cbmc, functional assertions active (PROP), WITNESS() is a no-op
 *   -DWITNESS_BUILD goto-cc/cbmc, PROP() is a no-op, every WITNESS(tag) is `assert(0)`; the
 *                  driver requires each of them to come back FAILED (= reachable), otherwise the
 *                  harness is vacuous
 *   -DREPLAY       native gcc build; the symbolic inputs `IN` are a concrete initialiser generated
 *                  from the solver's counterexample; PROP failure exits 1, a violated assumption
 *                  exits 77 (the counterexample does not satisfy the harness pre-condition when run
 *                  natively => encoding problem, reported as UNCONFIRMED by the driver)
 *
 * All symbolic input of a harness lives in one `struct inputs IN`, assigned once from a body-less
 * function, so the counterexample is exactly one struct value in the trace.
 */
#ifndef VERIF_H
#define VERIF_H
#include <stdint.h>
#include <stddef.h>
#include <stdbool.h>

#ifdef REPLAY
# include <stdio.h>
# include <stdlib.h>
# define ASSUME(c) do { if (!(c)) { printf("REPLAY-ASSUME-FAILED %s:%d %s\n", __FILE__, __LINE__, #c); \
                        fflush(stdout); exit(77); } } while (0)
# define PROP(c, desc) do { if (!(c)) { printf("REPLAY-PROP-FAILED %s\n", desc); fflush(stdout); \
                        exit(1); } } while (0)
# define WITNESS(tag) do { printf("REPLAY-WITNESS %s\n", tag); } while (0)
# define DECLARE_INPUTS extern struct inputs IN;
# define LOAD_INPUTS() ((void)0)
# define HARNESS_MAIN(fn) int main(void) { fn(); printf("REPLAY-END-OK\n"); return 0; }
#else
# define ASSUME(c) __CPROVER_assume(c)
# ifdef WITNESS_BUILD
#  define PROP(c, desc) ((void)0)
#  define WITNESS(tag) __CPROVER_assert(0, "WITNESS " tag)
# else
#  define PROP(c, desc) __CPROVER_assert((c), "PROP " desc)
#  define WITNESS(tag) ((void)0)
# endif
# define DECLARE_INPUTS struct inputs IN; struct inputs nondet_inputs(void);
# define LOAD_INPUTS() (IN = nondet_inputs())
# define HARNESS_MAIN(fn)
#endif

#endif

/* C05 / C06 / C15 (and C10's sequential side): stream and block header parser.
 * Real code: src/parse.c parse(), parser_init(), the bits_* macros.
 *
 * h_parse_step: ONE call of parse() from an ARBITRARY parser state (any of the 11 grammar positions,
 *   any level digit, any stored/computed CRC, stream_mode 0) on a symbolic bit stream (<= 63 live bits
 *   + NW words, eof flag symbolic), against a reference that reads the stream grammar 16 bits at a
 *   time:   stream  = 'B' 'Z' 'h' '1'..'9'  { 0x314159265359 crc32 <block> }  0x177245385090 crc32  pad-to-byte
 *   The call covers everything up to the next block (OK), the end of input (FINISH), a suspension
 *   (MORE) or an error; since the pre-state is arbitrary, whole files follow by induction.
 *   Checked: verdict, bits consumed, the captured block CRC and level, the combined-CRC fold
 *   (rotate-left-1 xor), the stream-CRC comparison for ALL stored/computed values (C15), byte
 *   alignment after a stream, concatenated streams with a new level digit, and the trailing-garbage
 *   rule (ignored unless a full BZh1..9 header is present).
 */
#include "verif.h"
#include "parse.c"             /* the real /repo/src/parse.c */

#ifndef NW
#define NW 3
#endif
#define MAXBITS (63 + 32 * NW)

struct inputs {
  unsigned state;              /* parser grammar position on entry (0..10) */
  int bs100k;
  uint32_t stored_crc, computed_crc;
  unsigned live;
  uint64_t buff;
  unsigned nwords;
  uint32_t words[NW];
  unsigned eof;
};
DECLARE_INPUTS

/* ---- the whole available stream (live bits, then words), left-justified in 64-bit chunks ---- */
static unsigned total_bits;
#define NCHUNK ((64 + 32 * NW) / 64 + 2)
static uint64_t chunk[NCHUNK];

static void build_stream(void)
{
  uint64_t W[NCHUNK];
  unsigned k, l = IN.live;                 /* 0..63 */
  for (k = 0; k < NCHUNK; k++) {
    uint64_t hi = (2 * k < NW) ? IN.words[2 * k] : 0;
    uint64_t lo = (2 * k + 1 < NW) ? IN.words[2 * k + 1] : 0;
    W[k] = (hi << 32) | lo;
  }
  for (k = 0; k < NCHUNK; k++) {
    uint64_t prev = (k == 0) ? 0 : W[k - 1];
    chunk[k] = (W[k] >> l) | (l == 0 ? 0 : prev << (64u - l));
  }
  chunk[0] |= IN.buff;
}

static unsigned unit_at(unsigned p)   /* 16 bits at bit position p */
{
  unsigned k = p / 64u, o = p % 64u;
  uint64_t win = (o == 0) ? chunk[k] : ((chunk[k] << o) | (chunk[k + 1] >> (64u - o)));
  return (unsigned)(win >> 48);
}

/* ---- reference: grammar positions ---- */
enum { G_STREAM_1, G_STREAM_2, G_BLK_1, G_BLK_2, G_BLK_3, G_BCRC_1, G_BCRC_2, G_EOS_2, G_EOS_3, G_ECRC_1, G_ECRC_2 };
/* pre-state constructor: the implementation's numbering of the same positions */
static const int impl_state[11] = { STREAM_MAGIC_1, STREAM_MAGIC_2, BLOCK_MAGIC_1, BLOCK_MAGIC_2, BLOCK_MAGIC_3,
                                    BLOCK_CRC_1, BLOCK_CRC_2, EOS_2, EOS_3, EOS_CRC_1, EOS_CRC_2 };

struct refres {
  int rv; unsigned pos; int g; uint32_t hd_crc; int hd_level; unsigned garbage;
  uint32_t stored, computed; int level;
};

static void ref_parse(struct refres *r, int g, int level, uint32_t stored, uint32_t computed)
{
  unsigned p = 0, steps;
  /* absolute bit position of stream bit 0 modulo 8: words sit on 32-bit boundaries */
  unsigned p0mod8 = (8u - IN.live % 8u) % 8u;
  r->rv = -1; r->hd_crc = 0; r->hd_level = 0; r->garbage = 0;
  for (steps = 0; steps < MAXBITS / 16 + 2; steps++) {
    if (p + 16 > total_bits) {                         /* no further 16-bit unit */
      if (!IN.eof || (total_bits - p) >= 16) { r->rv = MORE; break; }
      if (g == G_STREAM_1) { r->rv = FINISH; r->garbage = 0; break; }
      if (g == G_STREAM_2) { r->rv = FINISH; r->garbage = 16; break; }
      r->rv = ERR_EOF; break;
    }
    unsigned u = unit_at(p);
    p += 16;
    if (g == G_STREAM_1) {
      if (u != 0x425A) { r->rv = FINISH; r->garbage = 16; break; }     /* not "BZ": trailing garbage */
      g = G_STREAM_2;
    } else if (g == G_STREAM_2) {
      if (u < 0x6831 || u > 0x6839) { r->rv = FINISH; r->garbage = 32; break; }   /* not "h1".."h9" */
      level = (int)(u - 0x6830); g = G_BLK_1;
    } else if (g == G_BLK_1) {
      if (u == 0x1772) g = G_EOS_2;
      else if (u == 0x3141) g = G_BLK_2;
      else { r->rv = ERR_HEADER; break; }
    } else if (g == G_BLK_2) { if (u != 0x5926) { r->rv = ERR_HEADER; break; } g = G_BLK_3; }
    else if (g == G_BLK_3) { if (u != 0x5359) { r->rv = ERR_HEADER; break; } g = G_BCRC_1; }
    else if (g == G_BCRC_1) { stored = u; g = G_BCRC_2; }
    else if (g == G_BCRC_2) {
      r->hd_crc = (stored << 16) | u; r->hd_level = level;
      computed = ((computed << 1) | (computed >> 31)) ^ r->hd_crc;    /* combined CRC: rotate left 1, xor */
      g = G_BLK_1; r->rv = OK; break;
    }
    else if (g == G_EOS_2) { if (u != 0x4538) { r->rv = ERR_HEADER; break; } g = G_EOS_3; }
    else if (g == G_EOS_3) { if (u != 0x5090) { r->rv = ERR_HEADER; break; } g = G_ECRC_1; }
    else if (g == G_ECRC_1) { stored = u; g = G_ECRC_2; }
    else {  /* G_ECRC_2 */
      stored = (stored << 16) | u;
      if (stored != computed) { r->rv = ERR_STRMCRC; break; }
      computed = 0;
      while ((p0mod8 + p) % 8u != 0) p++;               /* streams start on byte boundaries */
      g = G_STREAM_1;
    }
  }
  r->pos = p; r->g = g; r->stored = stored; r->computed = computed; r->level = level;
}

void h_parse_step(void)
{
  LOAD_INPUTS();
  struct parser_state ps;
  struct header hd;
  struct bitstream bs;
  struct refres R;
  uint32_t data[NW + 1];
  unsigned garbage = 12345, i, n = IN.nwords;

  ASSUME(IN.state <= 10);
#ifdef ST_LO                            /* case split over the grammar position on entry, one query each */
  ASSUME(IN.state == ST_LO);
#endif
  ASSUME(n <= NW);
  ASSUME(IN.live <= 63 && (IN.live == 0 ? IN.buff == 0 : (IN.buff << IN.live) == 0));
  ASSUME(IN.eof <= 1);
  for (i = n; i < NW; i++) ASSUME(IN.words[i] == 0);
  for (i = 0; i < NW; i++) data[i] = htonl(IN.words[i]);
  total_bits = IN.live + 32u * n;
  build_stream();

  parser_init(&ps, IN.bs100k, 0);
  PROP(ps.state == BLOCK_MAGIC_1 && ps.computed_crc == 0 && ps.bs100k == IN.bs100k, "parser_init starts at a block boundary with an empty combined CRC");
#ifdef ST_LO
  unsigned st0 = ST_LO;                  /* constant: lets symex fold the grammar position */
#else
  unsigned st0 = IN.state;
#endif
  ps.state = impl_state[st0];
  ps.stored_crc = IN.stored_crc;
  ps.computed_crc = IN.computed_crc;
  /* stored_crc holds one 16-bit half while the second half is awaited */
  if (st0 == G_BCRC_2 || st0 == G_ECRC_2) ASSUME(IN.stored_crc <= 0xFFFF);
  hd.crc = 0; hd.bs100k = 0;
  bs.live = IN.live; bs.buff = IN.buff; bs.block = 0; bs.eof = IN.eof != 0;
  bs.data = data; bs.limit = data + n;

  int rv = parse(&ps, &hd, &bs, &garbage);
  ref_parse(&R, (int)st0, IN.bs100k, IN.stored_crc, IN.computed_crc);

  unsigned consumed = total_bits - (bs.live + 32u * (unsigned)(bs.limit - bs.data));

  if (R.rv == OK) WITNESS("block_header_found");
  if (R.rv == OK && IN.state == G_STREAM_1) WITNESS("stream_header_then_block");
  if (R.rv == ERR_STRMCRC) WITNESS("stream_crc_mismatch");
  if (R.rv == FINISH && R.garbage == 32) WITNESS("trailing_garbage_BZ_without_level");
  if (R.rv == FINISH && R.garbage == 0 && IN.state == G_ECRC_2) WITNESS("clean_end_after_stream");
  if (R.rv == OK && IN.state == G_ECRC_2) WITNESS("concatenated_stream");
  if (R.rv == MORE) WITNESS("suspended");
  if (R.rv == ERR_EOF) WITNESS("eof_inside_header");

  PROP(rv == R.rv, "parser verdict equals the stream grammar's");
  PROP(consumed == R.pos, "parser consumes exactly the header bits (incl. padding to a byte boundary after a stream)");
  if (R.rv == OK) {
    PROP(hd.crc == R.hd_crc, "stored block CRC is captured exactly from the header (C15)");
    PROP(hd.bs100k == R.hd_level, "block inherits the level digit of its stream header");
  }
  if (R.rv == FINISH)
    PROP(garbage == R.garbage, "garbage bit count reported at end of input");
  if (R.rv == OK || R.rv == MORE) {
    PROP(ps.state == impl_state[R.g], "grammar position carried to the next call");
    PROP(ps.computed_crc == R.computed, "combined stream CRC folds every block CRC (rotate-left-1 xor) and restarts per stream");
    PROP(ps.bs100k == R.level, "level digit carried to the next call");
    if (R.g == G_BCRC_2 || R.g == G_ECRC_2)
      PROP(ps.stored_crc == R.stored, "first CRC half carried to the next call");
  }
}

HARNESS_MAIN(REPLAY_ENTRY)
